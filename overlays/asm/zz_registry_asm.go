package main

import "git.defalsify.org/vise.git/asm"

func init() { add("asm", asm.VerifHarnesses) }

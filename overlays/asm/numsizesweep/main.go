// numsizesweep validates the contract the symbolic run assumes for
// asm.numSize (math.Log2 is floating point, outside the solver): for every
// uint32 n (or around the byte-width boundaries with -boundary) numSize(n)
// must be 1,2,3,4 for n < 2^8, 2^16, 2^24, else. Not the deciding step of
// C14: it justifies the stub. A disagreement is pushed through the real
// writeSize -> VM decoder natively and reported with that n.
package main

import (
	"flag"
	"fmt"
	"os"
	"runtime"
	"sync"

	"git.defalsify.org/vise.git/asm"
)

func main() {
	boundary := flag.Bool("boundary", false, "only values near the byte-width boundaries")
	flag.Parse()
	var mu sync.Mutex
	bad := 0
	report := func(n uint32) {
		mu.Lock()
		defer mu.Unlock()
		if bad < 10 {
			rt := "ok"
			if !asm.VerifAsmIntNative(n) {
				rt = "fail"
			}
			fmt.Printf("CONTRACT-VIOLATION n=%d roundtrip=%s\n", n, rt)
		}
		bad++
	}
	if *boundary {
		for _, c := range []uint64{1, 1 << 8, 1 << 16, 1 << 24, 1 << 32} {
			for d := int64(-70000); d <= 70000; d++ {
				x := int64(c) + d
				if x < 1 || x > 1<<32-1 {
					continue
				}
				if !asm.VerifNumSizeContract(uint32(x)) {
					report(uint32(x))
				}
			}
		}
	} else {
		workers := runtime.NumCPU()
		var wg sync.WaitGroup
		chunk := uint64(1<<32) / uint64(workers)
		for w := 0; w < workers; w++ {
			lo, hi := uint64(w)*chunk, uint64(w+1)*chunk
			if w == workers-1 {
				hi = 1 << 32
			}
			if lo == 0 {
				lo = 1
			}
			wg.Add(1)
			go func(lo, hi uint64) {
				defer wg.Done()
				for n := lo; n < hi; n++ {
					if !asm.VerifNumSizeContract(uint32(n)) {
						report(uint32(n))
					}
				}
			}(lo, hi)
		}
		wg.Wait()
	}
	if bad > 0 {
		fmt.Printf("numsize contract: %d disagreements\n", bad)
		os.Exit(1)
	}
	fmt.Println("numsize contract holds")
}

// In-package harness for the assembler's emit stage (injected as an overlay:
// nothing is written into /repo). Reduced scope of C16: parsed line ->
// bytecode and batch expansion; the participle lexer/grammar is not encoded.
package asm

import (
	"bytes"
	"strconv"

	"git.defalsify.org/vise.git/vm"
	"vharness/vrt"
)

func vstr(v *vrt.Ctx, label string) *string {
	s := v.Str(label, 1+v.Choice(label+"-len", 2))
	return &s
}

// VerifEmit: an arbitrary parsed line of each opcode, with the Arg fields the
// grammar produces for it, is emitted and decoded with the real VM decoder:
// one instruction, same opcode, same arguments in the documented order.
func VerifEmit(v *vrt.Ctx) {
	op := vm.Opcode(1 + v.Choice("opcode", 12))
	ins := &Instruction{OpCode: vm.OpcodeString[op]}
	w := bytes.NewBuffer(nil)
	var sym, sel *string
	var size *uint32
	var flag *uint8
	numericSel := false
	switch op {
	case vm.CATCH:
		sym = vstr(v, "sym")
		n, f := v.U32("size"), v.U8("flag")
		size, flag = &n, &f
	case vm.CROAK:
		n, f := v.U32("size"), v.U8("flag")
		size, flag = &n, &f
	case vm.LOAD:
		sym = vstr(v, "sym")
		n := v.U32("size")
		size = &n
	case vm.RELOAD, vm.MAP, vm.MOVE:
		sym = vstr(v, "sym")
	case vm.INCMP, vm.MOUT, vm.MNEXT, vm.MPREV:
		sym = vstr(v, "sym")
		if v.Choice("numeric-selector", 2) == 1 {
			n := v.U32("size")
			size = &n
			numericSel = true
		} else {
			sel = vstr(v, "selector")
		}
	}
	ins.OpArg = Arg{Sym: sym, Size: size, Flag: flag, Selector: sel}
	_, err := parseOne(op, ins, w)
	v.Assert(err == nil, "C16/emit-ok")
	b := w.Bytes()
	gop, rest, err := vm.ParseOp(b)
	v.Assert(err == nil && gop == op, "C16/same-opcode")
	switch op {
	case vm.CATCH:
		s, n, m, r, err := vm.ParseCatch(rest)
		v.Assert(err == nil, "C16/decodes")
		v.Assert(s == *sym && n == *size && m == (*flag > 0), "C16/same-arguments")
		rest = r
	case vm.CROAK:
		n, m, r, err := vm.ParseCroak(rest)
		v.Assert(err == nil, "C16/decodes")
		v.Assert(n == *size && m == (*flag > 0), "C16/same-arguments")
		rest = r
	case vm.LOAD:
		s, n, r, err := vm.ParseLoad(rest)
		v.Assert(err == nil, "C16/decodes")
		v.Assert(s == *sym && n == *size, "C16/same-arguments")
		rest = r
	case vm.RELOAD, vm.MAP, vm.MOVE:
		s, r, err := vm.ParseMove(rest)
		v.Assert(err == nil, "C16/decodes")
		v.Assert(s == *sym, "C16/same-arguments")
		rest = r
	case vm.INCMP, vm.MOUT, vm.MNEXT, vm.MPREV:
		a, c, r, err := vm.ParseInCmp(rest)
		v.Assert(err == nil, "C16/decodes")
		wantSym, wantSel := *sym, ""
		if numericSel {
			wantSel = strconv.FormatUint(uint64(*size), 10)
		} else {
			wantSel = *sel
			if op != vm.MOUT && *sym == "*" {
				// "INCMP * foo": the wildcard is the selector
				wantSym, wantSel = *sel, "*"
			}
		}
		v.Assert(a == wantSym, "C16/same-arguments")
		v.Assert(c == wantSel, "C16/same-arguments")
		rest = r
	}
	v.Assert(len(rest) == 0, "C16/one-instruction-per-line")
	v.Cover("C16/op-" + vm.OpcodeString[op])
}

// VerifAsmInt: for every 32-bit number the assembler's integer encoder and
// the VM's integer decoder agree (C14; numSize is replaced by its contract,
// validated by the native sweep).
func VerifAsmInt(v *vrt.Ctx) {
	n := v.U32("n")
	w := bytes.NewBuffer(nil)
	_, err := writeSize(w, n)
	v.Assert(err == nil, "C14/asm-int-encodes")
	w.Write([]byte{1})
	got, mode, rest, err := vm.ParseCroak(w.Bytes())
	v.Assert(err == nil, "C14/asm-int-decodes")
	v.Assert(got == n, "C14/asm-int-roundtrip")
	v.Assert(mode && len(rest) == 0, "C14/asm-int-consumes-exactly-own-bytes")
	v.Observe("n", n)
	v.Cover("C14/asm-int")
}

// VerifAsmSym: the assembler's string encoder and the VM's symbol decoder
// agree for every length up to 255, and longer strings are refused.
func VerifAsmSym(v *vrt.Ctx) {
	l := []int{1, 2, 254, 255, 256}[v.Choice("len", 5)]
	s := v.Str("sym", l)
	w := bytes.NewBuffer(nil)
	_, err := writeSym(w, s)
	if l > 255 {
		v.Assert(err != nil, "C14/asm-sym-too-long-is-refused")
		v.Cover("C14/asm-sym-refused")
		return
	}
	v.Assert(err == nil, "C14/asm-sym-encodes")
	got, rest, err := vm.ParseMove(w.Bytes())
	v.Assert(err == nil && got == s && len(rest) == 0, "C14/asm-sym-roundtrip")
	v.Cover("C14/asm-sym")
}

// VerifBatch: 1..3 batch menu lines expand to the documented
// MOUT/MNEXT/MPREV ... HALT ... INCMP pattern.
func VerifBatch(v *vrt.Ctx) {
	k := 1 + v.Choice("lines", 3)
	bt := Batcher{}
	w := bytes.NewBuffer(nil)
	type line struct {
		code               string
		sel, label, target string
	}
	var lines []line
	for i := 0; i < k; i++ {
		code := []string{"DOWN", "UP", "NEXT", "PREVIOUS"}[v.Choice("batch-code", 4)]
		ln := line{code: code}
		var arg Arg
		label := v.Str("label", 1)
		ln.label = label
		if v.Choice("numeric-selector", 2) == 1 {
			n := v.U32("selector-number")
			ln.sel = strconv.FormatUint(uint64(n), 10)
			arg.Size = &n
			arg.Selector = &label
			if code == "DOWN" {
				t := v.Str("target", 1)
				ln.target = t
				arg.Sym = &t
			}
		} else {
			s := v.Str("selector", 1)
			ln.sel = s
			if code == "DOWN" {
				t := v.Str("target", 1)
				ln.target = t
				arg.Sym, arg.Selector, arg.Desc = &t, &s, &label
			} else {
				arg.Sym, arg.Selector = &s, &label
			}
		}
		_, err := bt.MenuAdd(w, code, arg)
		v.Assert(err == nil, "C16/batch-line-accepted")
		lines = append(lines, ln)
	}
	_, err := bt.MenuExit(w)
	v.Assert(err == nil, "C16/batch-exit-ok")
	// asm.Parse calls MenuExit again before every ordinary instruction that
	// follows the menu and once more at the end of the source: the menu has
	// been written, nothing more comes
	for i := 0; i < 2; i++ {
		n, err := bt.MenuExit(w)
		v.Assert(err == nil && n == 0, "C16/batch-menu-is-emitted-once")
	}
	b := w.Bytes()
	for _, ln := range lines {
		op, rest, err := vm.ParseOp(b)
		v.Assert(err == nil, "C16/batch-decodes")
		want := vm.Opcode(vm.MOUT)
		switch ln.code {
		case "NEXT":
			want = vm.MNEXT
		case "PREVIOUS":
			want = vm.MPREV
		}
		v.Assert(op == want, "C16/batch-menu-line-opcode")
		a, c, rest, err := vm.ParseMOut(rest)
		v.Assert(err == nil && a == ln.label && c == ln.sel, "C16/batch-menu-line-arguments")
		b = rest
	}
	op, rest, err := vm.ParseOp(b)
	v.Assert(err == nil && op == vm.HALT, "C16/batch-halt-after-the-menu")
	b = rest
	for _, ln := range lines {
		op, rest, err := vm.ParseOp(b)
		v.Assert(err == nil && op == vm.INCMP, "C16/batch-incmp-line")
		a, c, rest, err := vm.ParseInCmp(rest)
		want := ln.target
		switch ln.code {
		case "UP":
			want = "_"
		case "NEXT":
			want = ">"
		case "PREVIOUS":
			want = "<"
		}
		v.Assert(err == nil && a == want && c == ln.sel, "C16/batch-incmp-arguments")
		b = rest
	}
	v.Assert(len(b) == 0, "C16/batch-nothing-else-emitted")
	v.Cover("C16/batch")
}

// VerifNumSizeContract is used by the native sweep: does numSize(n) equal
// the contract the symbolic run assumes?
func VerifNumSizeContract(n uint32) bool {
	want := 4
	switch {
	case n < 1<<8:
		want = 1
	case n < 1<<16:
		want = 2
	case n < 1<<24:
		want = 3
	}
	return numSize(n) == want
}

var VerifHarnesses = map[string]func(*vrt.Ctx){
	"VerifEmit":    VerifEmit,
	"VerifAsmInt":  VerifAsmInt,
	"VerifAsmSym":  VerifAsmSym,
	"VerifBatch":   VerifBatch,
}

// VerifAsmIntNative: native round trip of one number through the real
// writeSize and the VM decoder.
func VerifAsmIntNative(n uint32) bool {
	w := bytes.NewBuffer(nil)
	if _, err := writeSize(w, n); err != nil {
		return false
	}
	w.Write([]byte{1})
	got, _, rest, err := vm.ParseCroak(w.Bytes())
	return err == nil && got == n && len(rest) == 0
}

#!/usr/bin/env python3
"""Regenerates /verif/MANIFEST.json from tools/claims.json (claimed checks) and properties.jsonl."""
import json, os, sys
V = os.path.dirname(os.path.dirname(os.path.abspath(__file__)))
props = [json.loads(l) for l in open(os.path.join(V, "properties.jsonl"))]
claims = json.load(open(os.path.join(V, "tools", "claims.json")))
TECH = "bounded symbolic execution of the real go/ssa code with Z3 (bit-vector SMT) deciding every branch and obligation; native replay of every path's model"
checks, na = [], []
for p in props:
    pid = p["id"]
    c = claims.get(pid)
    if c and c.get("claimed"):
        checks.append({
            "property_id": pid,
            "quick_cmd": "./check %s quick" % pid,
            "thorough_cmd": "./check %s thorough" % pid,
            "evidence_file": "/verif/evidence/%s.json" % pid,
            "replay_cmd_template": "./check replay {path}",
            "engine": "gosymex",
            "level_claimed": {"category": "model_checking", "text": c["text"], "design_ref": c.get("design_ref", "DESIGN.md section 8")},
            "level_note": c["note"],
            "technique": c.get("technique", TECH),
        })
    else:
        na.append({"property_id": pid, "reason": (c or {}).get("reason", "check not built yet (build in progress, see DESIGN.md section 11)")})
m = {
    "version": 1,
    "setup_cmd": "cd /verif && ./setup.sh",
    "hooks": {
        "guard": "verif",
        "enable": "none needed: harnesses live in /verif/harness (module vharness, replace => /repo) and are loaded against /repo's current sources; the in-package assembler harness is injected with a go/packages overlay, nothing is written into /repo",
        "baseline_off_cmd": "cd /repo && go test -vet=off -count=1 ./asm/... ./cache/... ./db ./db/fs/... ./db/mem/... ./db/postgres/... ./engine/... ./lang/... ./logging/... ./persist/... ./render/... ./resource/... ./state/... ./vm/...",
        "source_commits": [],
        "add_only": True,
    },
    "engines": [{
        "name": "gosymex", "path": "/verif/symex",
        "serves_properties": [c["property_id"] for c in checks],
        "kind_free_text": "path-forking symbolic executor for go/ssa (x/tools v0.29.0) written for this task: bit-vector terms, rope strings with symbolic lengths, one z3 -in per worker, decision-prefix re-execution, native replay of all models",
    }],
    "checks": checks,
    "notes": "exit 0 pass / exit 1 VIOLATION (replay-confirmed) / exit 2 INCONCLUSIVE (never reported as pass). Known findings: /verif/known-findings.txt. See DESIGN.md.",
    "not_applicable": na,
}
json.dump(m, open(os.path.join(V, "MANIFEST.json"), "w"), indent=1)
print("claimed:", [c["property_id"] for c in checks])

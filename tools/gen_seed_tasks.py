#!/usr/bin/env python3
"""tools/gen_seed_tasks.py <wave-prefix> [ids...]: create a scratch worktree /tmp/<prefix>-<id> of /repo per
property with SEED/TASK.md (property text + one line per mechanism already tried). The agents get nothing from /verif."""
import json,subprocess,os,sys,glob
prefix=sys.argv[1]; ids=sys.argv[2:]
props={}
for l in open('/verif/properties.jsonl'):
    d=json.loads(l); props[d['id']]=d
avoid={}
for f in sorted(glob.glob('/verif/seeded/*/meta.json')):
    m=json.load(open(f)); avoid.setdefault(m['property'],[]).append(m['summary'])
PK="./asm/... ./cache/... ./db ./db/fs/... ./db/mem/... ./db/postgres/... ./engine/... ./lang/... ./logging/... ./persist/... ./render/... ./resource/... ./state/... ./vm/..."
def task(pid,wt):
    p=props[pid]
    a="\n".join(" - "+x for x in avoid.get(pid,[]))
    mech="\n".join(" - %s (%s)"%(m['name'],m['where']) for m in p['anchors'].get('mechanism',[]))
    return f'''# Task: write one realistic BUG for the Go library "go-vise"

go-vise is a bytecode VM, assembler, size-constrained paginated renderer and key-value
backends for USSD-style menu applications. You are helping evaluate a verification effort:
somebody else has built checkers for the property below and we want to know whether they
notice a realistic regression. You write the regression.

Work ONLY inside the git worktree {wt} (a checkout of the library). Do NOT read or touch
/verif or /repo. No network is available; every shell command must start with:
    export GOFLAGS=-mod=mod GOPROXY=off GOSUMDB=off GOTOOLCHAIN=local

## The semantic property under attack (read it carefully)

Property {pid}: {p['title']}

{p['statement']}

Quantified over: {p['quantifier']['text']}

Relevant files: {", ".join(p['anchors']['files'])}
Mechanisms the property rests on:
{mech}

## What to do

Make ONE small source change to the library (non-test .go files under {wt}) that BREAKS
this property, such that:

1. the library still compiles:  cd {wt} && go build {PK}
2. the existing test suite still passes with your change:
   cd {wt} && go test -vet=off -count=1 {PK}
   (db/gdbm and some examples do not build in this sandbox; ignore those.)
3. it looks like a plausible slip, refactoring or "optimisation" a maintainer could make -
   an off-by-one, a wrong comparison, a condition moved, a reset forgotten or done too
   early, a copy dropped, a wrong variable, a changed order of two steps, an error ignored -
   not sabotage, and it manifests only for SPECIFIC inputs/states so that ordinary runs do
   not hit it. Read the code and the existing tests first to find what the tests do not pin.
4. it must be a DIFFERENT mechanism from the changes already tried for this property:
{a if a else " - (none yet)"}
   Pick a different function or a different aspect of the property (re-read its statement:
   every clause of it is fair game, also the ones nobody has attacked yet).
5. you provide a demonstration at {wt}/SEED/demo_test.go whose FIRST line is a comment
   "// package dir: <dir>" (e.g. "// package dir: engine"), a Go test in that package
   (package clause as the other tests in that directory) that FAILS with your change and
   PASSES on the unmodified code, using only the library's exported or in-package API.
   Verify both yourself: copy it to <dir>/zz_seed_demo_test.go to run it
   (go test -vet=off -count=1 -run <Name> ./<dir>/), use
   `git diff > SEED/patch.diff; git checkout -- .` to test without the change, and remove
   the copy afterwards.

## Deliverables, all in {wt}/SEED/

 - patch.diff : output of `git diff` for your source change only (no test files),
   applicable with `git apply` at the worktree root (check with git apply --check).
 - demo_test.go : the demonstration test.
 - notes.txt : 5-10 lines: what the change is, why it breaks the property, exactly what is
   needed for it to manifest, and the commands you ran with their results.

Leave the worktree with your source change REVERTED (git checkout -- . ; no stray test
copies) - only the SEED directory should remain as untracked content.
Finish by printing the contents of notes.txt.
'''
for pid in ids:
    wt=f'/tmp/{prefix}-{pid}'
    if not os.path.exists(wt):
        subprocess.run(['git','-C','/repo','worktree','add','--detach','-q',wt,'HEAD'],check=True)
    os.makedirs(wt+'/SEED',exist_ok=True)
    open(wt+'/SEED/TASK.md','w').write(task(pid,wt))
    print(wt)

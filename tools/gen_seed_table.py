#!/usr/bin/env python3
"""tools/gen_seed_table.py: rewrite the table of DESIGN.md section 13 from /verif/seeded/*/meta.json."""
import json,glob,re
rows=[]
def key(n):
    m=re.match(r'C(\d+)-(\d+)',n); return (int(m.group(1)),int(m.group(2)))
names=sorted([p.split('/')[-2] for p in glob.glob('/verif/seeded/*/meta.json')],key=key)
for n in names:
    m=json.load(open(f'/verif/seeded/{n}/meta.json'))
    esc=lambda s:s.replace('|','\\|').replace('\n',' ')
    rows.append("| %s | %s | %s | %s | %s |"%(n,esc(m['summary']),esc(m['needs']),esc("; ".join(m['caught_by'])) or '**not caught**',esc("; ".join(m['missed_by'])) or '—'))
lines=open('/verif/DESIGN.md').read().split('\n')
a=next(i for i,l in enumerate(lines) if l.startswith('| seed | change |'))
b=a+2
while lines[b].startswith('|'): b+=1
lines[a+2:b]=rows
open('/verif/DESIGN.md','w').write('\n'.join(lines))
print(len(rows),'rows')

#!/bin/bash
# tools/recheck_seed.sh <seed-name> <property> [more...]   re-run registered quick checks on a stored seeded change
set -u
name=$1; shift
cd /verif; export GOFLAGS=-mod=mod GOPROXY=off GOSUMDB=off GOTOOLCHAIN=local
[ -z "$(git -C /repo status --short)" ] || { echo "/repo not clean"; exit 2; }
git -C /repo apply /verif/seeded/$name/patch.diff || { echo "patch does not apply to /repo"; exit 2; }
for p in "$@"; do
  bin/gosymex check -prop $p -tier quick -no-evidence > /verif/seeded/$name/check-$p.out 2>&1; rc=$?
  echo "$name $p: VIOLATION lines $(grep -c '^VIOLATION' /verif/seeded/$name/check-$p.out) exit=$rc  $(grep -m1 'violated:' /verif/seeded/$name/check-$p.out | cut -c1-160)"
done
git -C /repo checkout -- .

#!/usr/bin/env python3
"""tools/write_meta.py <seed> <property> <summary> <needs> [--caught "C0x (...)"]... [--missed "..."]...
writes /verif/seeded/<seed>/meta.json (agent_notes from notes.txt)."""
import sys,json,os
seed,prop,summary,needs=sys.argv[1:5]
caught=[];missed=[]
a=sys.argv[5:]
i=0
while i<len(a):
    if a[i]=='--caught': caught.append(a[i+1])
    elif a[i]=='--missed': missed.append(a[i+1])
    i+=2
d='/verif/seeded/'+seed
notes=open(d+'/notes.txt').read() if os.path.exists(d+'/notes.txt') else ''
json.dump({"property":prop,"caught_by":caught,"missed_by":missed,"summary":summary,"needs":needs,
 "written_by":"a fresh sub-agent given only the property text, the list of mechanisms already tried, and a scratch worktree of /repo (nothing from /verif)",
 "confirmed":"tools/try_seed.sh: patch applies, library builds, the unedited suite passes with it, demo_test.go fails with the change and passes without; then applied to /repo, the registered quick checks run with -no-evidence, and reverted (git -C /repo checkout -- .). Outputs: check-<id>.out",
 "agent_notes":notes},open(d+'/meta.json','w'),indent=1)

#!/bin/bash
# tools/try_seed.sh <seed-name> <worktree> <property> [more properties...]
# Confirms a seeded change (compiles, suite passes, demo fails with / passes without),
# stores it under /verif/seeded/<seed-name>/ and runs the registered checks against it.
set -u
name=$1; wt=$2; shift 2
export GOFLAGS=-mod=mod GOPROXY=off GOSUMDB=off GOTOOLCHAIN=local
PK="./asm/... ./cache/... ./db ./db/fs/... ./db/mem/... ./db/postgres/... ./engine/... ./lang/... ./logging/... ./persist/... ./render/... ./resource/... ./state/... ./vm/..."
cd $wt || exit 2
git checkout -q -- . ; 
pkgdir=$(head -1 SEED/demo_test.go | sed 's|.*package dir: *||; s| *$||')
echo "== package dir of demo: $pkgdir"
git apply SEED/patch.diff || { echo "patch does not apply"; exit 2; }
go build $PK 2>&1 | tail -3; echo "== build rc=$?"
go test -vet=off -count=1 $PK 2>&1 | grep -v "^ok\|no test files" | head -5; echo "== suite with change: done (lines above = failures, none expected)"
cp SEED/demo_test.go $pkgdir/zz_seed_demo_test.go
go test -vet=off -count=1 ./$pkgdir/ 2>&1 | tail -4 | cut -c1-200; echo "== demo WITH change (expect FAIL)"
git checkout -q -- .
go test -vet=off -count=1 ./$pkgdir/ 2>&1 | tail -2 | cut -c1-200; echo "== demo WITHOUT change (expect ok)"
rm -f $pkgdir/zz_seed_demo_test.go
mkdir -p /verif/seeded/$name
cp SEED/patch.diff SEED/demo_test.go /verif/seeded/$name/
cp SEED/notes.txt /verif/seeded/$name/notes.txt 2>/dev/null
cd /verif
git -C /repo apply /verif/seeded/$name/patch.diff || { echo "patch does not apply to /repo"; exit 2; }
for p in "$@"; do
  echo "== ./check $p quick on the seeded tree"
  bin/gosymex check -prop $p -tier quick -no-evidence > /verif/seeded/$name/check-$p.out 2>&1; rc=$?
  grep -c "^VIOLATION" /verif/seeded/$name/check-$p.out | sed "s/^/   VIOLATION lines: /"
  grep "violated:\|INCONCLUSIVE" /verif/seeded/$name/check-$p.out | head -3 | cut -c1-260
  echo "   exit=$rc"
done
git -C /repo checkout -- .
git -C /repo status --short | head -3

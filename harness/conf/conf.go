// Package conf: interpreter conformance. These harnesses run go-vise on
// concrete inputs; the driver re-runs them natively and the observations must
// be identical, which validates the executor and its stubs on real code
// paths (engine, vm, render, cache, state, persist).
package conf

import (
	"context"

	"git.defalsify.org/vise.git/db/mem"
	"git.defalsify.org/vise.git/engine"
	"git.defalsify.org/vise.git/persist"
	"vharness/app"
	"vharness/vrt"
)

func introApp() *app.Res {
	rs := app.NewRes()
	rs.Funcs["greet"] = app.Static("world")
	rs.Funcs["rows"] = app.Static("alpha\nbeta\ngamma\ndelta\nepsilon\nzeta")
	rs.Node("root", "hello {{.greet}}", app.Code().Load("greet", 20).Map("greet").MOut("go", "1").MOut("list", "2").Halt().InCmp("one", "1").InCmp("list", "2").Bytes())
	rs.Node("one", "one", app.Code().MOut("back", "0").Halt().InCmp("_", "0").Bytes())
	rs.Node("list", "list:\n{{.rows}}", app.Code().Load("rows", 0).Map("rows").MNext("next", "11").MPrev("prev", "22").MOut("back", "0").Halt().InCmp(">", "11").InCmp("<", "22").InCmp("_", "0").Bytes())
	rs.Node("_catch", "oops", app.Code().MOut("back", "0").Halt().InCmp("_", "*").Bytes())
	return rs
}

// Engine1: a fixed input history through a long-lived engine.
func Engine1(v *vrt.Ctx) {
	rs := introApp()
	cfg := engine.Config{Root: "root", OutputSize: 40, FlagCount: 4}
	en := engine.NewEngine(cfg, rs)
	ctx := context.Background()
	inputs := []string{"", "1", "0", "2", "11", "11", "22", "x", "0", "0"}
	for _, in := range inputs {
		cont, err := en.Exec(ctx, []byte(in))
		v.Observe("cont", cont)
		v.Observe("err", err)
		w := &app.Sink{}
		_, ferr := en.Flush(ctx, w)
		v.Observe("ferr", ferr)
		v.Observe("out", w.S)
	}
	v.Cover("conf/engine1")
}

// Engine2: the same history with a fresh engine and persister per request
// over the memory store (exercises persist, the cbor stub and db/mem).
func Engine2(v *vrt.Ctx) {
	rs := introApp()
	ctx := context.Background()
	store := mem.NewMemDb()
	store.Connect(ctx, "")
	inputs := []string{"", "1", "0", "2", "11", "11", "22", "x", "0", "0"}
	for _, in := range inputs {
		cfg := engine.Config{Root: "root", OutputSize: 40, FlagCount: 4, SessionId: "s1"}
		pe := persist.NewPersister(store)
		en := engine.NewEngine(cfg, rs).WithPersister(pe)
		cont, err := en.Exec(ctx, []byte(in))
		v.Observe("cont", cont)
		v.Observe("err", err)
		w := &app.Sink{}
		_, ferr := en.Flush(ctx, w)
		v.Observe("ferr", ferr)
		v.Observe("out", w.S)
		v.Observe("finish", en.Finish(ctx))
	}
	v.Cover("conf/engine2")
}

var Harnesses = map[string]func(*vrt.Ctx){
	"Engine1": Engine1,
	"Engine2": Engine2,
}

// Package snap: structural snapshots of what a later request can observe of a
// session (exported State and Cache fields), and their comparison.
package snap

import (
	"git.defalsify.org/vise.git/cache"
	"git.defalsify.org/vise.git/state"
	"vharness/vrt"
)

// Snap is a structural copy of what a later request can observe.
type Snap struct {
	path   []string
	idx    uint16
	flags  []byte
	code   []byte
	moves  uint32
	frames []map[string]string
	sizes  map[string]uint16
	use    uint32
	last   string
}

func Take(st *state.State, ca *cache.Cache) Snap {
	s := Snap{path: append([]string{}, st.ExecPath...), idx: st.SizeIdx, flags: append([]byte{}, st.Flags...),
		code: append([]byte{}, st.Code...), moves: st.Moves, use: ca.CacheUseSize, sizes: map[string]uint16{}, last: ca.LastValue}
	for _, fr := range ca.Cache {
		m := map[string]string{}
		for k, x := range fr {
			m[k] = x
		}
		s.frames = append(s.frames, m)
	}
	for k, x := range ca.Sizes {
		s.sizes[k] = x
	}
	return s
}

func Same(v *vrt.Ctx, a, b Snap) bool {
	if len(a.path) != len(b.path) || len(a.flags) != len(b.flags) || len(a.code) != len(b.code) || len(a.frames) != len(b.frames) || len(a.sizes) != len(b.sizes) {
		return false
	}
	ok := v.And(v.And(a.idx == b.idx, a.last == b.last), v.And(a.moves == b.moves, a.use == b.use))
	for i := range a.path {
		ok = v.And(ok, a.path[i] == b.path[i])
	}
	for i := range a.flags {
		ok = v.And(ok, a.flags[i] == b.flags[i])
	}
	for i := range a.code {
		ok = v.And(ok, a.code[i] == b.code[i])
	}
	for i := range a.frames {
		if len(a.frames[i]) != len(b.frames[i]) {
			return false
		}
		for k, x := range a.frames[i] {
			y, have := b.frames[i][k]
			ok = v.And(ok, v.And(have, x == y))
		}
	}
	for k, x := range a.sizes {
		y, have := b.sizes[k]
		ok = v.And(ok, v.And(have, x == y))
	}
	return ok
}


// Moves: the number of navigation moves recorded in the snapshot.
func (s Snap) Moves() uint32 { return s.moves }

// Package c03: client input is routed by the first matching INCMP, once.
package c03

import (
	"context"

	"git.defalsify.org/vise.git/cache"
	"git.defalsify.org/vise.git/render"
	"git.defalsify.org/vise.git/state"
	"git.defalsify.org/vise.git/vm"
	"vharness/app"
	"vharness/vrt"
)

var targets = []string{"one", "two", "three", "_", ".", ">", "<", "^"}

// pos is the reference navigation state of appendix A.1.
type pos struct {
	path []string
	idx  uint16
}

// move applies one target per the documented table; ok=false when the move
// fails ("_" at the entry node, "<" at index 0).
func move(p pos, t string) (pos, bool) {
	switch t {
	case "_":
		if len(p.path) == 1 {
			return p, false
		}
		return pos{append([]string{}, p.path[:len(p.path)-1]...), 0}, true
	case "^":
		if len(p.path) == 1 {
			return p, true
		}
		return pos{[]string{p.path[0]}, 0}, true
	case ".":
		return p, true
	case ">":
		return pos{p.path, p.idx + 1}, true
	case "<":
		if p.idx == 0 {
			return p, false
		}
		return pos{p.path, p.idx - 1}, true
	}
	return pos{append(append([]string{}, p.path...), t), 0}, true
}

func samePath(a []string, b []string) bool {
	if len(a) != len(b) {
		return false
	}
	for i := range a {
		if a[i] != b[i] {
			return false
		}
	}
	return true
}

// Route: K INCMP lines with arbitrary selectors after a HALT, arbitrary valid
// input, arbitrary start index, start depth 1..3.
func Route(v *vrt.Ctx) {
	k := v.Param("K")
	depth := 1 + v.Choice("depth", 3)
	// the INCMP lines of the current node
	sels := make([]string, k)
	tgts := make([]string, k)
	cur := app.Code().Halt()
	for i := 0; i < k; i++ {
		sels[i] = v.Str("selector", 1+v.Choice("sellen", v.Param("sellen")))
		tgts[i] = targets[v.Choice("target", len(targets))]
		cur.InCmp(tgts[i], sels[i])
	}
	// destination nodes: plain HALT, or starting with a further INCMP whose
	// selector is arbitrary too (it must be inert: a match was already made)
	// ... or terminal: no code at all, the session ends there (and must end
	// there: the matched input is not reported as invalid afterwards)
	// ... or stopping at a HALT followed by one INCMP of its own (shape 3):
	// the next input is then routed by that node's lines only
	destShape := v.Choice("dest-shape", 4)
	destInCmp := destShape == 1
	ownSel := ""
	if destShape == 3 {
		ownSel = v.Str("dest-own-selector", 1)
	}
	rs := app.NewRes()
	names := []string{"root", "mid", "deep"}
	for i := 0; i < depth-1; i++ {
		// outer nodes stop at a HALT first, so that coming back up to them
		// does not immediately descend again
		rs.Node(names[i], names[i], app.Code().Halt().InCmp(names[i+1], "*").Bytes())
	}
	here := names[depth-1]
	rs.Node(here, here, cur.Bytes())
	for _, t := range []string{"one", "two", "three"} {
		c := app.Code()
		if destInCmp {
			c.InCmp("extra", v.Str("dest-selector", 1))
		}
		if destShape == 2 {
			rs.Node(t, t, c.Load("tail", 0).Bytes())
			continue
		}
		if destShape == 3 {
			rs.Node(t, t, c.Halt().InCmp("extra", ownSel).Bytes())
			continue
		}
		rs.Node(t, t, c.Halt().Bytes())
	}
	rs.Funcs["tail"] = app.Static("t")
	rs.Node("extra", "extra", app.Code().Halt().Bytes())
	rs.Node("_catch", "catch", app.Code().Halt().InCmp("_", "*").Bytes())

	st := state.NewState(0)
	ca := cache.NewCache()
	vmi := vm.NewVm(st, rs, ca, render.NewSizer(0))
	ctx := context.Background()
	rest, err := vmi.Run(ctx, app.Code().Move("root").Bytes())
	v.Assume(err == nil)
	for i := 0; i < depth-1; i++ {
		st.SetInput([]byte("x"))
		rest, err = vmi.Run(ctx, rest)
		v.Assume(err == nil)
	}
	v.Assume(len(st.ExecPath) == depth)
	start := pos{append([]string{}, st.ExecPath...), v.U16("startidx")}
	v.Assume(start.idx < 65535)
	st.SizeIdx = start.idx
	entered0 := codeCalls(rs)

	// the empty input is an input too (the engine checks the format of
	// non-empty input only): it matches the wildcard and nothing else
	var in []byte
	if n := v.Choice("inputlen", 2+v.Param("inputlen")); n <= v.Param("inputlen") {
		in = v.Bytes("input", n)
	} else {
		// an input with a formatting directive in it, spelled out (the message
		// of the catch page is built with a format string)
		in = []byte("5%d")
	}
	if len(in) > 0 {
		_, verr := vm.ValidInput(in)
		v.Assume(verr == nil)
	}
	st.SetInput(in)
	rest, err = vmi.Run(ctx, rest)
	v.Observe("run-err", err)

	// reference router (appendix A.2)
	want := pos{}
	caught := true
	for i := 0; i < k; i++ {
		if sels[i] == string(in) || sels[i] == "*" {
			if p, ok := move(start, tgts[i]); ok {
				want, caught = p, false
			} else if tgts[i] == "_" {
				// "_" at the entry node is a failing move, not a routing
				// question: the run reports an error
				v.Assert(err != nil, "C03/up-at-entry-node-is-an-error")
				v.Cover("C03/up-at-entry")
				return
			}
			break
		}
	}
	v.Assert(err == nil, "C03/run-ok")
	if caught {
		want = pos{append(append([]string{}, start.path...), "_catch"), 0}
		v.Cover("C03/no-match-goes-to-catch")
	} else {
		v.Cover("C03/matched")
	}
	v.Observe("path-len", len(st.ExecPath))
	v.Assert(samePath(st.ExecPath, want.path), "C03/position-is-first-match")
	v.Assert(st.SizeIdx == want.idx, "C03/page-index-is-first-match")
	v.Assert(codeCalls(rs)-entered0 == 1, "C03/exactly-one-node-entered")
	// a second input at a named destination that stopped at its HALT before an INCMP: only
	// that node's own INCMP lines take part, whatever was left unread of the
	// node the session came from
	last := want.path[len(want.path)-1]
	if !caught && destShape == 3 && (last == "one" || last == "two" || last == "three") {
		in2 := v.Bytes("second-input", 1)
		_, verr2 := vm.ValidInput(in2)
		v.Assume(verr2 == nil)
		st.SetInput(in2)
		_, err = vmi.Run(ctx, rest)
		v.Observe("second-err", err)
		v.Assert(err == nil, "C03/second-run-ok")
		next := "_catch"
		if ownSel == string(in2) || ownSel == "*" {
			next = "extra"
		}
		want2 := append(append([]string{}, want.path...), next)
		v.Assert(samePath(st.ExecPath, want2), "C03/second-input-is-routed-by-the-current-node-only")
		v.Cover("C03/second-input")
		return
	}
	if caught {
		out, rerr := vmi.Render(ctx)
		v.Assert(rerr == nil, "C03/catch-renders")
		// the page is the catch node's template under a message that shows
		// the input (the wording of the message is not part of the property)
		tail := "\ncatch"
		v.Assert(len(out) > len(tail)+len(in) && out[len(out)-len(tail):] == tail, "C03/catch-shows-the-input")
		v.Assert(contains(v, out[:len(out)-len(tail)], string(in)), "C03/catch-shows-the-input")
	}
}

// contains: needle occurs in hay (no forking on symbolic bytes).
func contains(v *vrt.Ctx, hay, needle string) bool {
	r := false
	for i := 0; i+len(needle) <= len(hay); i++ {
		m := true
		for j := 0; j < len(needle); j++ {
			m = v.And(m, hay[i+j] == needle[j])
		}
		r = v.Or(r, m)
	}
	return r
}

func codeCalls(rs *app.Res) int {
	n := 0
	for _, c := range rs.Log {
		if c.Kind == "code" {
			n++
		}
	}
	return n
}

var Harnesses = map[string]func(*vrt.Ctx){
	"Route": Route,
}

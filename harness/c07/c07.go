// Package c07: a persisted session resumes exactly where an uninterrupted
// one would be.
package c07

import (
	"context"

	"git.defalsify.org/vise.git/cache"
	"git.defalsify.org/vise.git/db"
	"git.defalsify.org/vise.git/db/mem"
	"git.defalsify.org/vise.git/engine"
	"git.defalsify.org/vise.git/persist"
	"git.defalsify.org/vise.git/resource"
	"git.defalsify.org/vise.git/state"
	"vharness/app"
	"vharness/apps"
	"vharness/snap"
	"vharness/vrt"
)

// Input draws one client input of 0..maxlen symbolic bytes ('{' excluded:
// the error prefix is spliced into template text, see DESIGN.md section 6).
func Input(v *vrt.Ctx, maxlen int) []byte {
	in := v.Bytes("input", v.Choice("inputlen", maxlen+1))
	for _, b := range in {
		v.Assume(b != '{')
	}
	return in
}

// ASCII restricts an input to 7-bit bytes. Input that is not valid UTF-8 and
// ends up in the cache makes the saved session undecodable (finding F22,
// reported by C08); what a failed load leaves behind depends on the CBOR
// library's partial decoding and on map encoding order, which is not modelled.
func ASCII(v *vrt.Ctx, in []byte) []byte {
	for _, b := range in {
		v.Assume(b < 0x80)
	}
	return in
}

// Sizes: output and cache size from the parameters; -1 = a solver variable.
func Sizes(v *vrt.Ctx) (uint32, uint32) {
	out, ca := uint32(0), uint32(0)
	if p := v.Param("outputsize"); p >= 0 {
		out = uint32(p)
	} else {
		out = v.U32("outputsize")
		v.Assume(out <= 4096)
	}
	if p := v.Param("cachesize"); p >= 0 {
		ca = uint32(p)
	} else {
		ca = v.U32("cachesize")
		v.Assume(ca <= 4096)
	}
	return out, ca
}

// Equiv: the same symbolic input history through one long-lived engine and
// through a fresh engine + persister per request over the memory store.
func Equiv(v *vrt.Ctx) {
	k := v.Param("K")
	which := v.Param("app")
	ctx := context.Background()
	cfg := engine.Config{Root: "root", FlagCount: 4, SessionId: "s1"}
	cfg.OutputSize, cfg.CacheSize = Sizes(v)
	rsA, rsB := apps.Get(which), apps.Get(which)
	stA := state.NewState(cfg.FlagCount)
	caA := cache.NewCache().WithCacheSize(cfg.CacheSize)
	enA := engine.NewEngine(cfg, rsA).WithState(stA).WithMemory(caA)
	store := mem.NewMemDb()
	store.Connect(ctx, "")
	if v.Param("shared") == 1 {
		// the application keeps user data in the store that also holds the
		// session (one handle for both): every external function writes a
		// note under USERDATA before it answers
		side := mem.NewMemDb()
		side.Connect(ctx, "")
		useStore(rsA, side)
		useStore(rsB, store)
	}
	for i := 0; i < k; i++ {
		var in []byte
		if i > 0 {
			in = ASCII(v, Input(v, v.Param("inputlen")))
		}
		contA, errA := enA.Exec(ctx, in)
		wA := &app.Sink{}
		_, ferrA := enA.Flush(ctx, wA)

		pe := persist.NewPersister(store)
		enB := engine.NewEngine(cfg, rsB).WithPersister(pe)
		contB, errB := enB.Exec(ctx, in)
		wB := &app.Sink{}
		_, ferrB := enB.Flush(ctx, wB)
		finB := enB.Finish(ctx)

		v.Observe("cont", contA)
		v.Observe("out", wA.S)
		v.Assert(contA == contB, "C07/same-continue-flag")
		v.Assert((errA == nil) == (errB == nil), "C07/same-exec-error")
		v.Assert((ferrA == nil) == (ferrB == nil), "C07/same-flush-error")
		v.Assert(wA.S == wB.S, "C07/same-output")
		v.Assert(finB == nil, "C07/save-ok")
		// the stored session is the live one (everything a later request can
		// observe: position, flags, pending code, cache incl. the last value)
		pl := persist.NewPersister(store).WithContent(state.NewState(cfg.FlagCount), cache.NewCache())
		if pl.Load(cfg.SessionId) == nil && contA && errA == nil {
			v.Assert(snap.Same(v, snap.Take(stA, caA), snap.Take(pl.GetState(), pl.Memory)), "C07/stored-session-equals-the-live-one")
		}
		if !contA || errA != nil {
			v.Cover("C07/session-ended-or-error")
			if !contA {
				break
			}
		}
	}
	v.Cover("C07/history-done")
}

func useStore(rs *app.Res, st db.Db) {
	for name, fn := range rs.Funcs {
		fn := fn
		rs.Funcs[name] = func(ctx context.Context, sym string, input []byte) (resource.Result, error) {
			st.SetPrefix(db.DATATYPE_USERDATA)
			st.Put(ctx, []byte("note"), []byte("n"))
			return fn(ctx, sym, input)
		}
	}
}

var Harnesses = map[string]func(*vrt.Ctx){
	"Equiv": Equiv,
}

// Package c14: bytecode encoding and decoding are exact inverses.
package c14

import (
	"fmt"
	"strings"

	"git.defalsify.org/vise.git/vm"
	"vharness/vrt"
)

// encodeInt returns the big-endian bytes of n at width w (0..4).
func encodeInt(n uint32, w int) []byte {
	b := make([]byte, w)
	for i := 0; i < w; i++ {
		b[w-1-i] = byte(n >> (8 * uint(i)))
	}
	return b
}

// number draws a 32-bit value together with an encoding width that can hold it.
func number(v *vrt.Ctx, label string) (uint32, []byte) {
	w := v.Choice(label+"-width", 5)
	n := v.U32(label)
	switch w {
	case 0:
		v.Assume(n == 0)
	case 1:
		v.Assume(n < 1<<8)
	case 2:
		v.Assume(n < 1<<16)
	case 3:
		v.Assume(n < 1<<24)
	}
	return n, encodeInt(n, w)
}

func symLen(v *vrt.Ctx, label string) int {
	switch v.Choice(label+"-lenclass", v.Param("lenclasses")) {
	case 0:
		return 1
	case 1:
		return 2
	case 2:
		return 255
	case 3:
		return 127
	case 4:
		return 254
	}
	return 128
}

// One: every instruction kind with arbitrary arguments, followed by arbitrary
// trailing bytes, decodes to the same arguments, consumes exactly its own
// bytes, and is listed by the disassembler as the same instruction.
func One(v *vrt.Ctx) {
	op := uint16(v.Choice("opcode", 13))
	tail := v.Bytes("tail", 2)
	var code []byte
	var want string
	switch op {
	case vm.CATCH:
		sym := v.Str("sym", symLen(v, "sym"))
		sig, sigb := number(v, "sig")
		mode := v.U8("mode")
		code = vm.NewLine(nil, op, []string{sym}, sigb, []uint8{mode})
		full := append(append([]byte{}, code...), tail...)
		gsym, gsig, gmode, rest, err := vm.ParseCatch(full[2:])
		v.Assert(err == nil, "C14/decode-ok")
		v.Assert(gsym == sym, "C14/symbol-roundtrip")
		v.Assert(gsig == sig, "C14/number-roundtrip")
		v.Assert(gmode == (mode > 0), "C14/mode-roundtrip")
		v.Assert(string(rest) == string(tail), "C14/consumes-exactly-own-bytes")
		m := 0
		if gmode {
			m = 1
		}
		want = fmt.Sprintf("CATCH %s %v %v\n", gsym, gsig, m)
	case vm.CROAK:
		sig, sigb := number(v, "sig")
		mode := v.U8("mode")
		code = vm.NewLine(nil, op, nil, sigb, []uint8{mode})
		full := append(append([]byte{}, code...), tail...)
		gsig, gmode, rest, err := vm.ParseCroak(full[2:])
		v.Assert(err == nil, "C14/decode-ok")
		v.Assert(gsig == sig, "C14/number-roundtrip")
		v.Assert(gmode == (mode > 0), "C14/mode-roundtrip")
		v.Assert(string(rest) == string(tail), "C14/consumes-exactly-own-bytes")
		m := 0
		if gmode {
			m = 1
		}
		want = fmt.Sprintf("CROAK %v %v\n", gsig, m)
	case vm.LOAD:
		sym := v.Str("sym", symLen(v, "sym"))
		sz, szb := number(v, "size")
		code = vm.NewLine(nil, op, []string{sym}, szb, nil)
		full := append(append([]byte{}, code...), tail...)
		gsym, gsz, rest, err := vm.ParseLoad(full[2:])
		v.Assert(err == nil, "C14/decode-ok")
		v.Assert(gsym == sym, "C14/symbol-roundtrip")
		v.Assert(gsz == sz, "C14/number-roundtrip")
		v.Assert(string(rest) == string(tail), "C14/consumes-exactly-own-bytes")
		want = fmt.Sprintf("LOAD %s %v\n", gsym, gsz)
	case vm.RELOAD, vm.MAP, vm.MOVE:
		sym := v.Str("sym", symLen(v, "sym"))
		code = vm.NewLine(nil, op, []string{sym}, nil, nil)
		full := append(append([]byte{}, code...), tail...)
		var gsym string
		var rest []byte
		var err error
		switch op {
		case vm.RELOAD:
			gsym, rest, err = vm.ParseReload(full[2:])
		case vm.MAP:
			gsym, rest, err = vm.ParseMap(full[2:])
		default:
			gsym, rest, err = vm.ParseMove(full[2:])
		}
		v.Assert(err == nil, "C14/decode-ok")
		v.Assert(gsym == sym, "C14/symbol-roundtrip")
		v.Assert(string(rest) == string(tail), "C14/consumes-exactly-own-bytes")
		want = fmt.Sprintf("%s %s\n", vm.OpcodeString[vm.Opcode(op)], gsym)
	case vm.INCMP, vm.MOUT, vm.MNEXT, vm.MPREV:
		sym := v.Str("sym", symLen(v, "sym"))
		sel := v.Str("sel", symLen(v, "sel"))
		code = vm.NewLine(nil, op, []string{sym, sel}, nil, nil)
		full := append(append([]byte{}, code...), tail...)
		var gsym, gsel string
		var rest []byte
		var err error
		switch op {
		case vm.INCMP:
			gsym, gsel, rest, err = vm.ParseInCmp(full[2:])
		case vm.MOUT:
			gsym, gsel, rest, err = vm.ParseMOut(full[2:])
		case vm.MNEXT:
			gsym, gsel, rest, err = vm.ParseMNext(full[2:])
		default:
			gsym, gsel, rest, err = vm.ParseMPrev(full[2:])
		}
		v.Assert(err == nil, "C14/decode-ok")
		v.Assert(gsym == sym, "C14/symbol-roundtrip")
		v.Assert(gsel == sel, "C14/selector-roundtrip")
		v.Assert(string(rest) == string(tail), "C14/consumes-exactly-own-bytes")
		want = fmt.Sprintf("%s %s %s\n", vm.OpcodeString[vm.Opcode(op)], gsym, gsel)
	case vm.HALT, vm.MSINK, vm.NOOP:
		code = vm.NewLine(nil, op, nil, nil, nil)
		v.Assert(len(code) == 2, "C14/noarg-is-two-bytes")
		if op == vm.NOOP {
			want = ""
		} else {
			want = vm.OpcodeString[vm.Opcode(op)] + "\n"
		}
	}
	gop, _, err := vm.ParseOp(code)
	v.Assert(err == nil && uint16(gop) == op, "C14/opcode-roundtrip")
	// the disassembler lists the same instruction
	ph := vm.NewParseHandler().WithDefaultHandlers()
	txt, err := ph.ToString(code)
	v.Assert(err == nil, "C14/disassembles")
	v.Assert(txt == want, "C14/disassembly-lists-same-instruction")
	v.Observe("text-len", len(txt))
	v.Cover(fmt.Sprintf("C14/op-%d", op))
}

// noLF: symbols are single-line text (the disassembler prints them verbatim).
func noLF(v *vrt.Ctx, s string) string {
	for i := 0; i < len(s); i++ {
		v.Assume(s[i] != '\n')
	}
	return s
}

// Seq: N instructions concatenated decode one after the other with nothing
// left over, and the disassembler lists N lines.
func Seq(v *vrt.Ctx) {
	n := v.Param("N")
	var code []byte
	var syms []string
	var ops []uint16
	for i := 0; i < n; i++ {
		switch v.Choice("kind", 4) {
		case 0:
			s := noLF(v, v.Str("sym", 1+v.Choice("symlen", 2)))
			code = vm.NewLine(code, vm.MOVE, []string{s}, nil, nil)
			syms = append(syms, s)
			ops = append(ops, vm.MOVE)
		case 1:
			s := noLF(v, v.Str("sym", 1+v.Choice("symlen", 2)))
			sz, szb := number(v, "size")
			_ = sz
			code = vm.NewLine(code, vm.LOAD, []string{s}, szb, nil)
			syms = append(syms, s)
			ops = append(ops, vm.LOAD)
		case 2:
			code = vm.NewLine(code, vm.HALT, nil, nil, nil)
			syms = append(syms, "")
			ops = append(ops, vm.HALT)
		case 3:
			s := noLF(v, v.Str("sym", 1))
			t := noLF(v, v.Str("sel", 1))
			code = vm.NewLine(code, vm.INCMP, []string{s, t}, nil, nil)
			syms = append(syms, s)
			ops = append(ops, vm.INCMP)
		}
	}
	b := code
	for i := 0; i < n; i++ {
		op, rest, err := vm.ParseOp(b)
		v.Assert(err == nil && uint16(op) == ops[i], "C14/seq-opcode")
		b = rest
		switch ops[i] {
		case vm.MOVE:
			s, rest, err := vm.ParseMove(b)
			v.Assert(err == nil && s == syms[i], "C14/seq-symbol")
			b = rest
		case vm.LOAD:
			s, _, rest, err := vm.ParseLoad(b)
			v.Assert(err == nil && s == syms[i], "C14/seq-symbol")
			b = rest
		case vm.INCMP:
			s, _, rest, err := vm.ParseInCmp(b)
			v.Assert(err == nil && s == syms[i], "C14/seq-symbol")
			b = rest
		}
	}
	v.Assert(len(b) == 0, "C14/seq-nothing-left")
	ph := vm.NewParseHandler().WithDefaultHandlers()
	txt, err := ph.ToString(code)
	v.Assert(err == nil, "C14/seq-disassembles")
	lines := len(strings.Split(txt, "\n")) - 1
	v.Assert(lines == n, "C14/seq-one-line-per-instruction")
	v.Observe("lines", lines)
	v.Cover("C14/seq-done")
}

// AllLens: a MOVE with a symbol of every length 1..255 (arbitrary bytes).
func AllLens(v *vrt.Ctx) {
	l := 1 + v.Choice("symlen", 255)
	sym := v.Str("sym", l)
	tail := v.Bytes("tail", 1)
	code := vm.NewLine(nil, vm.MOVE, []string{sym}, nil, nil)
	full := append(append([]byte{}, code...), tail...)
	gsym, rest, err := vm.ParseMove(full[2:])
	v.Assert(err == nil, "C14/decode-ok")
	v.Assert(gsym == sym, "C14/symbol-roundtrip")
	v.Assert(string(rest) == string(tail), "C14/consumes-exactly-own-bytes")
	v.Observe("len", len(gsym))
	v.Cover("C14/alllens")
}

var Harnesses = map[string]func(*vrt.Ctx){
	"AllLens": AllLens,
	"One": One,
	"Seq": Seq,
}

// Package c02: paginated sink content is complete, ordered and navigable.
package c02

import (
	"context"
	"strings"

	"git.defalsify.org/vise.git/engine"
	"vharness/app"
	"vharness/apps"

	"vharness/c01"
	"vharness/vrt"
)

func join(parts []string, sep string) string {
	s := ""
	for i, p := range parts {
		if i > 0 {
			s += sep
		}
		s += p
	}
	return s
}

// expected is the page the documentation describes for sink rows a..b
// (inclusive) at page j of total pages (appendix A.4).
func expected(c *c01.Cfg, rows []string, a, b int, first, last bool) string {
	t := c.Static
	if c.HasVal {
		t += c.Val
	}
	if len(rows) > 0 {
		t += "\n" + join(rows[a:b+1], "\n")
	}
	if c.HasErr {
		// the prefix is joined with LF unless the template itself is empty
		if len(c.Static) == 0 && !c.HasVal && !c.HasSink && !c.MenuSink {
			t = c.ErrText
		} else {
			t = c.ErrText + "\n" + t
		}
	}
	var menu []string
	sep := ":"
	if c.Sep != "" {
		sep = c.Sep
	}
	if !c.MenuSink {
		for _, e := range c.Menu {
			menu = append(menu, e[0]+sep+e[1])
		}
	}
	if c.Browse >= 1 && !last {
		ttl := c.NextTtl
		if c.Resolved != "" {
			ttl = c.Resolved // the label as the resource resolves it
		}
		menu = append(menu, c.NextSel+sep+ttl)
	}
	if c.Browse >= 2 && !first {
		menu = append(menu, c.PrevSel+sep+c.PrevTtl)
	}
	if len(menu) > 0 {
		t += "\n" + join(menu, "\n")
	}
	return t
}

func sameRuns(v *vrt.Ctx, a, b []vrt.RunLen) bool {
	if len(a) != len(b) {
		return false
	}
	ok := true
	for i := range a {
		ok = v.And(ok, v.And(a[i].Tag == b[i].Tag, a[i].Len == b[i].Len))
	}
	return ok
}

// Walk: render index 0, 1, ... of one symbolic configuration on a freshly
// mapped page each time (what the engine does) up to the first index that
// fails, P, and one beyond.
func Walk(v *vrt.Ctx) {
	nrows := v.Param("rows")
	c := c01.Draw(v, nrows, v.Param("minrow"))
	if v.Param("resolved") == 1 && c.Browse >= 1 {
		// the browse label resolves (through the resource) to a longer text
		c.Resolved = v.Opaque("resolved-next-title", 'R', 1, 255)
		v.Finding("F17-browse-label-resolves-longer", len(c.Resolved) > len(c.NextTtl))
	}
	// the rows of the sink: content rows, or the menu entries under MSINK
	rows := c.Rows
	var rowTag func(i int) byte
	rowTag = func(i int) byte { return byte('a' + i) }
	if c.MenuSink {
		rows = nil
		for _, e := range c.Menu {
			rows = append(rows, e[0]+":"+e[1])
		}
		rowTag = func(i int) byte { return byte('0' + i) } // the entry's selector
	}
	anyEmpty := false
	for _, r := range c.Rows {
		anyEmpty = v.Or(anyEmpty, len(r) == 0)
	}
	v.Finding("F12-empty-row", anyEmpty)
	// F12(iii): a row other than the first that (nearly) fills a page of its
	// own: the page before it offers "next" but the row's page cannot render.
	// Capacity of a middle page = size - page without rows but with both
	// browse entries; rows within 4 bytes of it are in the class.
	if len(rows) > 1 {
		base := len(expected(c, rows, 0, -1, false, false))
		big := false
		for i := 1; i < len(rows); i++ {
			big = v.Or(big, len(rows[i])+base+4 > int(c.Size))
		}
		v.Finding("F12-later-row-fills-page", big)
	}
	ctx := context.Background()
	maxPages := len(rows) + 2
	var pages []string
	P := -1
	for idx := 0; idx <= maxPages; idx++ {
		pg, ok := c.Page(v)
		v.Assume(ok)
		out, err := pg.Render(ctx, "node", uint16(idx))
		if err != nil {
			P = idx
			break
		}
		pages = append(pages, out)
	}
	v.Assert(P >= 0, "C02/more-pages-than-rows")
	v.Observe("pages", P)
	// S4/S5: beyond the end is an error, never content
	pg, ok := c.Page(v)
	v.Assume(ok)
	_, err := pg.Render(ctx, "node", uint16(P+1))
	v.Assert(err != nil, "C02/past-the-end-is-an-error")
	if P == 0 {
		// "does not fit" must be true (see ByteWalk): with room for the page
		// without rows plus both browse entries plus any one row and 4 bytes
		// to spare, index 0 renders
		if len(rows) > 0 && !anyEmpty {
			base0 := len(expected(c, rows, 0, -1, false, false))
			roomy := true
			for i := range rows {
				roomy = v.And(roomy, uint64(len(rows[i]))+uint64(base0)+4 <= uint64(c.Size))
			}
			v.Assert(!roomy, "C02/sufficient-size-renders")
		}
		v.Cover("C02/does-not-fit")
		return
	}
	if P == 1 {
		v.Cover("C02/single-page")
	} else {
		v.Cover("C02/multi-page")
	}
	// S1: rows partitioned over the pages, in order, each exactly once
	next := 0
	for j, out := range pages {
		runs := v.Runs(out)
		a := next
		b := a - 1
		for _, r := range runs {
			for i := next; i < len(rows); i++ {
				if r.Tag == rowTag(i) {
					// rows skipped over must be empty ones (they leave no run)
					for k := next; k < i; k++ {
						v.Assert(len(rows[k]) == 0, "C02/rows-in-order-exactly-once")
					}
					b = i
					next = i + 1
				}
			}
		}
		if len(rows) > 0 && !anyEmpty {
			v.Assert(b >= a, "C02/page-without-rows")
		}
		// S2, S3 and full row text: the page is exactly the documented one
		want := expected(c, rows, a, b, j == 0, j == P-1)
		if !anyEmpty {
			v.Observe("page", out)
			v.Observe("want", want)
			v.Assert(sameRuns(v, runs, v.Runs(want)), "C02/page-is-the-documented-page")
		}
	}
	if !anyEmpty {
		v.Assert(next == len(rows), "C02/rows-missing")
	}
}

// EngineWalk: the paginated list of the intro application is walked through
// the engine with the next selector, for a symbolic output size: every row
// appears exactly once and in order, 'next' is offered on every page but the
// last, and stepping back with 'previous' shows the previous page again.
func EngineWalk(v *vrt.Ctx) {
	ctx := context.Background()
	size := v.U32("outputsize")
	v.Assume(size >= 16 && size <= 200)
	cfg := engine.Config{Root: "root", FlagCount: 4, SessionId: "s1", OutputSize: size}
	en := engine.NewEngine(cfg, apps.Intro())
	rows := []string{"alpha", "beta", "gamma", "delta", "epsilon", "zeta"}
	// F12: a later row that (nearly) fills a middle page of its own: page text
	// without rows but with both browse entries is 29 bytes, the longest row 7
	v.Finding("F12-later-row-fills-page", size < 29+7+4)
	request := func(in string) (string, error) {
		_, err := en.Exec(ctx, []byte(in))
		if err != nil {
			return "", err
		}
		w := &app.Sink{}
		_, err = en.Flush(ctx, w)
		return w.S, err
	}
	_, err := request("")
	v.Assume(err == nil)
	page, err := request("2")
	if err != nil {
		v.Cover("C02/engine-list-does-not-fit")
		return
	}
	next := 0
	var pages []string
	for n := 0; n < 8; n++ {
		pages = append(pages, page)
		lines := strings.Split(page, "\n")
		hasNext, hasPrev := false, false
		for _, l := range lines {
			for i := next; i < len(rows); i++ {
				if l == rows[i] {
					v.Assert(i == next, "C02/engine-rows-in-order-exactly-once")
					next = i + 1
				}
			}
			if l == "11:next" {
				hasNext = true
			}
			if l == "22:prev" {
				hasPrev = true
			}
		}
		v.Assert(hasPrev == (n > 0), "C02/engine-previous-on-all-but-the-first-page")
		if !hasNext {
			break
		}
		v.Assert(next < len(rows), "C02/engine-next-offered-on-the-last-page")
		page, err = request("11")
		v.Assert(err == nil, "C02/engine-offered-next-renders")
	}
	v.Assert(next == len(rows), "C02/engine-rows-missing")
	v.Observe("pages", len(pages))
	// one step back shows the previous page again
	if len(pages) > 1 {
		back, err := request("22")
		v.Assert(err == nil && back == pages[len(pages)-2], "C02/engine-previous-shows-the-previous-page")
		v.Cover("C02/engine-multi-page")
	} else {
		v.Cover("C02/engine-single-page")
	}
}

// EngineTwoLists: one session, one long-lived engine, two nodes with a
// paginated list each (different sink symbols): the first list is walked to
// its end, then the second one. The renderer is re-used from node to node;
// what it keeps from the first list must not disturb the second.
func EngineTwoLists(v *vrt.Ctx) {
	ctx := context.Background()
	size := v.U32("outputsize")
	v.Assume(size >= 16 && size <= 120)
	cfg := engine.Config{Root: "root", FlagCount: 4, SessionId: "s1", OutputSize: size}
	en := engine.NewEngine(cfg, apps.TwoSinks())
	// page text without rows but with the menu entry and both browse entries
	// is 17 bytes, the longest row 5
	v.Finding("F12-later-row-fills-page", size < 17+5)
	request := func(in string) (string, error) {
		_, err := en.Exec(ctx, []byte(in))
		if err != nil {
			return "", err
		}
		w := &app.Sink{}
		_, err = en.Flush(ctx, w)
		return w.S, err
	}
	walk := func(page string, rows []string) bool {
		next := 0
		for n := 0; n < 8; n++ {
			hasNext := false
			for _, l := range strings.Split(page, "\n") {
				for i := next; i < len(rows); i++ {
					if l == rows[i] {
						v.Assert(i == next, "C02/engine-rows-in-order-exactly-once")
						next = i + 1
					}
				}
				if l == "8:fw" {
					hasNext = true
				}
			}
			if !hasNext {
				break
			}
			var err error
			page, err = request("8")
			v.Assert(err == nil, "C02/engine-offered-next-renders")
			if err != nil {
				return false
			}
		}
		v.Assert(next == len(rows), "C02/engine-rows-missing")
		return true
	}
	page, err := request("")
	if err != nil {
		v.Cover("C02/engine-list-does-not-fit")
		return
	}
	if !walk(page, []string{"ant", "bee", "cat", "dog", "eel"}) {
		return
	}
	page, err = request("1")
	v.Assert(err == nil, "C02/engine-second-list-renders")
	if err != nil {
		return
	}
	walk(page, []string{"one", "two", "three", "four"})
	v.Cover("C02/engine-two-lists")
}

// ByteWalk: the same walk with rows of symbolic bytes (any byte but LF, the
// row separator; blanks, tabs and other bytes a trim or a split could treat
// specially included; not NUL, which the renderer reserves) instead of uninterpreted chunks, short concrete
// surroundings and a symbolic output size. Row lengths are concrete per path,
// so the rows of a page are identified by the page's length (rows are not
// empty, the documented page grows strictly with every row) and the page is
// compared byte for byte with the documented one.
func ByteWalk(v *vrt.Ctx) {
	margin := v.Param("margin")
	nrows := v.Param("rows")
	maxlen := v.Param("maxlen")
	minlen := v.Param("minlen") // minlen = maxlen: long content of one shape, several rows on middle pages
	c := &c01.Cfg{Static: "hd", HasSink: true}
	c.Size = v.U32("outputsize")
	v.Assume(c.Size > 0 && c.Size <= 64)
	for i := 0; i < nrows; i++ {
		n := minlen + v.Choice("rowlen", maxlen-minlen+1)
		b := v.Bytes("row", n)
		for _, x := range b {
			// LF separates rows; NUL is the renderer's reserved in-page
			// separator (rows are text), as for the uninterpreted chunks
			v.Assume(x != '\n')
			v.Assume(x != 0)
		}
		c.Rows = append(c.Rows, string(b))
	}
	c.Menu = [][2]string{{"0", "x"}}
	c.Browse = 2
	// the two browse labels differ in length by more than the margin of finding
	// F12 (the default ones differ by 4, which is that margin), so
	// that taking one entry's size for the other's shows
	c.NextSel, c.NextTtl, c.PrevSel, c.PrevTtl = "1", "n", "2", "previous"
	if v.Param("resolved") == 1 {
		c.Resolved = "onward" // what the resource resolves the label "n" to
	}
	switch v.Param("sep") {
	case 1:
		c.Sep = ". " // a configured menu separator longer than the default one
	case 2:
		c.Sep = " - "
	}
	rows := c.Rows
	base := len(expected(c, rows, 0, -1, false, false))
	big := false
	for i := 1; i < len(rows); i++ {
		big = v.Or(big, len(rows[i])+base+margin > int(c.Size))
	}
	v.Finding("F12-later-row-fills-page", big)
	ctx := context.Background()
	var pages []string
	P := -1
	for idx := 0; idx <= len(rows)+2; idx++ {
		pg, ok := c.Page(v)
		v.Assume(ok)
		out, err := pg.Render(ctx, "node", uint16(idx))
		if err != nil {
			P = idx
			break
		}
		pages = append(pages, out)
	}
	v.Assert(P >= 0, "C02/more-pages-than-rows")
	v.Observe("pages", P)
	if P == 0 {
		// "does not fit" is an answer only when it is true: an output size
		// that holds the template, the menu, both browse entries and any one
		// row with 4 bytes to spare (the margin of finding F12) can be
		// paginated, so index 0 renders
		roomy := len(rows[0])+base+4 <= int(c.Size)
		for i := 1; i < len(rows); i++ {
			roomy = v.And(roomy, len(rows[i])+base+4 <= int(c.Size))
		}
		v.Assert(!roomy, "C02/bytes-sufficient-size-renders")
		v.Cover("C02/bytes-does-not-fit")
		return
	}
	if P == 1 {
		v.Cover("C02/bytes-single-page")
	} else {
		v.Cover("C02/bytes-multi-page")
	}
	next := 0
	for j, out := range pages {
		v.Assert(uint64(len(out)) <= uint64(c.Size), "C02/bytes-page-fits")
		a := next
		b := -1
		for k := a; k < len(rows); k++ {
			if len(expected(c, rows, a, k, j == 0, j == P-1)) == len(out) {
				b = k
				break
			}
		}
		v.Observe("page", out)
		v.Assert(b >= a, "C02/bytes-page-is-whole-rows-in-order")
		if b < a {
			return
		}
		v.Assert(out == expected(c, rows, a, b, j == 0, j == P-1), "C02/bytes-page-is-the-documented-page")
		next = b + 1
	}
	v.Assert(next == len(rows), "C02/bytes-rows-missing")
}

// EmptyRows: the walk over content that has empty rows (anywhere, also at the
// end). Rows cannot be told apart by length any more, so the oracle is: every
// page is the template, then a body, then the menu with 'next' on every page
// but the last and 'previous' on every page but the first; and the bodies,
// read in page order with their line feeds removed, are the rows' bytes in
// order - nothing lost, repeated or cut. (Whether an empty row is shown as an
// empty line is not asserted: they are dropped at page boundaries, F12b.)
func EmptyRows(v *vrt.Ctx) {
	margin := v.Param("margin")
	nrows := v.Param("rows")
	maxlen := v.Param("maxlen")
	c := &c01.Cfg{Static: "hd", HasSink: true}
	c.Size = v.U32("outputsize")
	v.Assume(c.Size > 0 && c.Size <= 64)
	anyEmpty := false
	all := ""
	for i := 0; i < nrows; i++ {
		n := v.Choice("rowlen", maxlen+1)
		b := v.Bytes("row", n)
		for _, x := range b {
			v.Assume(x != '\n')
			v.Assume(x != 0)
		}
		anyEmpty = anyEmpty || n == 0
		c.Rows = append(c.Rows, string(b))
		all += string(b)
	}
	if !anyEmpty {
		return // ByteWalk's case
	}
	c.Menu = [][2]string{{"0", "x"}}
	c.Browse = 2
	c.NextSel, c.NextTtl, c.PrevSel, c.PrevTtl = "1", "n", "2", "p"
	rows := c.Rows
	base := len(expected(c, rows, 0, -1, false, false))
	big := false
	for i := 1; i < len(rows); i++ {
		big = v.Or(big, len(rows[i])+base+margin > int(c.Size))
	}
	v.Finding("F12-later-row-fills-page", big)
	ctx := context.Background()
	var pages []string
	P := -1
	for idx := 0; idx <= len(rows)+2; idx++ {
		pg, ok := c.Page(v)
		v.Assume(ok)
		out, err := pg.Render(ctx, "node", uint16(idx))
		if err != nil {
			P = idx
			break
		}
		pages = append(pages, out)
	}
	v.Assert(P >= 0, "C02/more-pages-than-rows")
	v.Observe("pages", P)
	if P == 0 {
		roomy := true
		for i := range rows {
			roomy = v.And(roomy, len(rows[i])+base+4 <= int(c.Size))
		}
		v.Assert(!roomy, "C02/empty-rows-sufficient-size-renders")
		v.Cover("C02/empty-rows-does-not-fit")
		return
	}
	shown := ""
	for j, out := range pages {
		v.Observe("page", out)
		v.Assert(uint64(len(out)) <= uint64(c.Size), "C02/empty-rows-page-fits")
		menu := "0:x"
		if j != P-1 {
			menu += "\n1:n"
		}
		if j != 0 {
			menu += "\n2:p"
		}
		head, tail := "hd\n", "\n"+menu
		ok := len(out) >= len(head)+len(tail) && out[:len(head)] == head && out[len(out)-len(tail):] == tail
		v.Assert(ok, "C02/empty-rows-page-is-template-body-menu")
		if !ok {
			return
		}
		for _, ch := range []byte(out[len(head) : len(out)-len(tail)]) {
			if ch != '\n' {
				shown += string([]byte{ch})
			}
		}
	}
	v.Assert(shown == all, "C02/empty-rows-content-complete-and-in-order")
	if P == 1 {
		v.Cover("C02/empty-rows-single-page")
	} else {
		v.Cover("C02/empty-rows-multi-page")
	}
}

var Harnesses = map[string]func(*vrt.Ctx){
	"EngineTwoLists": EngineTwoLists,
	"Walk":           Walk,
	"EngineWalk":     EngineWalk,
	"ByteWalk":       ByteWalk,
	"EmptyRows":      EmptyRows,
}

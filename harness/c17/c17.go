// Package c17: rejected input has no effect on the session.
package c17

import (
	"context"

	"git.defalsify.org/vise.git/cache"
	"git.defalsify.org/vise.git/db"
	"git.defalsify.org/vise.git/db/mem"
	"git.defalsify.org/vise.git/engine"
	"git.defalsify.org/vise.git/persist"
	"git.defalsify.org/vise.git/resource"
	"git.defalsify.org/vise.git/state"
	"git.defalsify.org/vise.git/vm"
	"vharness/app"
	"vharness/apps"
	"vharness/c07"
	"vharness/snap"
	"vharness/vrt"
)

// Refused draws an input the engine must refuse: 1..2 arbitrary bytes that
// fail the real input check, or an over-long input (256 / 300 bytes).
func Refused(v *vrt.Ctx) []byte {
	switch v.Choice("refused-shape", 4) {
	case 1:
		return long(256)
	case 2:
		return long(300)
	case 3:
		// over the limit in bytes, under it in characters: a letter and 150
		// two-byte characters (301 bytes, 151 characters)
		b := []byte{'a'}
		for i := 0; i < 150; i++ {
			b = append(b, 0xc3, 0xa9)
		}
		return b
	}
	in := v.Bytes("refused", 1+v.Choice("refusedlen", 2))
	for _, b := range in {
		v.Assume(b != '{')
	}
	// refused by the documented format (the reference below), not by asking
	// the code under test: that the engine does refuse it is asserted
	v.Assume(!DocumentedFormat(v, in))
	return in
}

// DocumentedFormat is the default input format as documented
// (/^\+?[a-zA-Z0-9].*$/ in Go regexp syntax, no flags): an optional '+', one
// letter or digit, then any bytes but LF ('.' does not match a line feed and
// '$' only the end of the text). No other validator is registered here.
func DocumentedFormat(v *vrt.Ctx, in []byte) bool {
	alnum := func(c byte) bool {
		return v.Or(v.And(c >= '0', c <= '9'), v.Or(v.And(c >= 'a', c <= 'z'), v.And(c >= 'A', c <= 'Z')))
	}
	rest := func(from int) bool {
		ok := true
		for _, c := range in[from:] {
			ok = v.And(ok, c != '\n')
		}
		return ok
	}
	if len(in) == 0 {
		return false
	}
	plain := v.And(alnum(in[0]), rest(1))
	if len(in) == 1 {
		return plain
	}
	return v.Or(plain, v.And(in[0] == '+', v.And(alnum(in[1]), rest(2))))
}

// Format: vm.ValidInput accepts exactly the documented format, for every
// byte string of the given length.
func Format(v *vrt.Ctx) {
	in := v.Bytes("input", v.Param("len"))
	_, err := vm.ValidInput(in)
	v.Assert((err == nil) == DocumentedFormat(v, in), "C17/input-check-is-the-documented-format")
	if err == nil {
		v.Cover("C17/format-accepts")
	} else {
		v.Cover("C17/format-refuses")
	}
}

func long(n int) []byte {
	b := make([]byte, n)
	for i := range b {
		b[i] = 'a'
	}
	return b
}

// Snap, Take, Same: see package snap.
type Snap = snap.Snap

var Take = snap.Take
var Same = snap.Same

type world struct {
	v         *vrt.Ctx
	cfg       engine.Config
	rs        *app.Res
	persisted bool
	first     bool
	firstSaw  []string
	en        *engine.DefaultEngine
	st        *state.State
	ca        *cache.Cache
	store     db.Db
}

type result struct {
	cont bool
	err  bool
	out  string
}

// request serves one input: with the long-lived engine, or with a fresh
// engine that loads and saves the session.
func (w *world) request(ctx context.Context, in []byte) (result, Snap, Snap) {
	en := w.en
	var pe *persist.Persister
	if w.persisted {
		pe = persist.NewPersister(w.store)
		en = engine.NewEngine(w.cfg, w.rs).WithPersister(pe)
		if w.first {
			en = en.WithFirst(w.firstFunc())
		}
	}
	var before Snap
	if w.persisted {
		// what is stored before the request
		p0 := persist.NewPersister(w.store).WithContent(state.NewState(w.cfg.FlagCount), cache.NewCache())
		if p0.Load(w.cfg.SessionId) == nil {
			before = Take(p0.GetState(), p0.Memory)
		} else {
			// nothing stored yet: a session that does not exist is a pristine one
			before = Take(state.NewState(w.cfg.FlagCount), cache.NewCache())
		}
	} else {
		before = Take(w.st, w.ca)
	}
	cont, err := en.Exec(ctx, in)
	sink := &app.Sink{}
	en.Flush(ctx, sink)
	var after Snap
	if w.persisted {
		en.Finish(ctx)
		p1 := persist.NewPersister(w.store).WithContent(state.NewState(w.cfg.FlagCount), cache.NewCache())
		if p1.Load(w.cfg.SessionId) == nil {
			after = Take(p1.GetState(), p1.Memory)
		} else {
			after = Take(state.NewState(w.cfg.FlagCount), cache.NewCache())
		}
	} else {
		after = Take(w.st, w.ca)
	}
	return result{cont, err != nil, sink.S}, before, after
}

func (w *world) firstFunc() resource.EntryFunc {
	return func(ctx context.Context, sym string, input []byte) (resource.Result, error) {
		w.firstSaw = append(w.firstSaw, string(input))
		return resource.Result{}, nil
	}
}

func newWorld(v *vrt.Ctx, which int, persisted, first, resetOnEmpty bool) *world {
	w := &world{v: v, rs: apps.Get(which), persisted: persisted, first: first}
	w.cfg = engine.Config{Root: "root", FlagCount: 4, SessionId: "s1", OutputSize: 60, ResetOnEmptyInput: resetOnEmpty}
	if persisted {
		w.store = mem.NewMemDb()
		w.store.Connect(context.Background(), "")
	} else {
		w.st = state.NewState(w.cfg.FlagCount)
		w.ca = cache.NewCache()
		w.en = engine.NewEngine(w.cfg, w.rs).WithState(w.st).WithMemory(w.ca)
		if first {
			w.en = w.en.WithFirst(w.firstFunc())
		}
	}
	return w
}

// TwoRun: a history of K acceptable inputs is served twice, the second time
// with a refused input inserted at an arbitrary position.
func TwoRun(v *vrt.Ctx) {
	k := v.Param("K")
	which := v.Param("app")
	persisted := v.Param("persisted") == 1
	first := v.Param("first") == 1
	ctx := context.Background()
	hist := make([][]byte, k)
	for i := 1; i < k; i++ {
		hist[i] = c07.ASCII(v, c07.Input(v, 1))
		if len(hist[i]) > 0 {
			_, err := vm.ValidInput(hist[i])
			v.Assume(err == nil)
		}
	}
	refused := Refused(v)
	at := v.Choice("insert-before", k+1) // 0..k (0 = the first thing the engine sees, k = after the last one)
	if first {
		v.Finding("F16-first-function-sees-refused-input", true)
	}
	// with the engine configured to start over on empty input: only the empty
	// input does that, a refused blank one does nothing
	resetOnEmpty := v.Choice("reset-on-empty-input", 2) == 1
	ref := newWorld(v, which, persisted, first, resetOnEmpty)
	sub := newWorld(v, which, persisted, first, resetOnEmpty)
	ended := false
	for i := 0; i <= k && !ended; i++ {
		if i == at {
			// flush before any exec on a fresh engine is refused too
			calls0 := sub.rs.FuncCalls()
			saw0 := len(sub.firstSaw)
			r, before, after := sub.request(ctx, refused)
			v.Assert(r.err, "C17/refused-input-reports-an-error")
			v.Assert(r.out == "", "C17/refused-input-produces-no-output")
			v.Assert(Same(v, before, after), "C17/refused-input-leaves-the-session-unchanged")
			v.Assert(sub.rs.FuncCalls() == calls0, "C17/refused-input-runs-no-application-code")
			v.Assert(len(sub.firstSaw) == saw0, "C17/refused-input-runs-no-application-code")
			v.Cover("C17/refused")
		}
		if i == k {
			break
		}
		a, _, _ := ref.request(ctx, hist[i])
		b, _, _ := sub.request(ctx, hist[i])
		v.Observe("out", a.out)
		v.Assert(a.cont == b.cont, "C17/later-requests-unaffected")
		v.Assert(a.err == b.err, "C17/later-requests-unaffected")
		v.Assert(a.out == b.out, "C17/later-requests-unaffected")
		if !a.cont {
			ended = true
		}
	}
	v.Cover("C17/history-done")
}

// FlushFirst: asking for output before anything was executed is refused
// without side effects.
func FlushFirst(v *vrt.Ctx) {
	w := newWorld(v, v.Param("app"), false, false, false)
	ctx := context.Background()
	before := Take(w.st, w.ca)
	sink := &app.Sink{}
	_, err := w.en.Flush(ctx, sink)
	v.Assert(err == engine.ErrFlushNoExec, "C17/flush-before-exec-is-refused")
	v.Assert(sink.S == "", "C17/flush-before-exec-writes-nothing")
	v.Assert(Same(v, before, Take(w.st, w.ca)), "C17/flush-before-exec-changes-nothing")
	v.Assert(w.rs.FuncCalls() == 0 && len(w.rs.Log) == 0, "C17/flush-before-exec-runs-nothing")
	cont, xerr := w.en.Exec(ctx, []byte{})
	v.Assert(cont && xerr == nil, "C17/engine-usable-after-refused-flush")
	v.Cover("C17/flush-first")
}

var Harnesses = map[string]func(*vrt.Ctx){
	"TwoRun":     TwoRun,
	"FlushFirst": FlushFirst,
	"Format":     Format,
}

package c15

import (
	"git.defalsify.org/vise.git/vm"
	"vharness/vrt"
)

// ParseLoad: arbitrary bytes through the LOAD argument decoder.
func ParseLoad(v *vrt.Ctx) {
	n := v.Param("L")
	b := v.Bytes("code", n)
	sym, sz, rest, err := vm.ParseLoad(b)
	v.Observe("err", err)
	if err == nil {
		v.Observe("sym", sym)
		v.Observe("sz", sz)
		v.Observe("rest", len(rest))
		v.Cover("C15/parseload-ok")
	}
}

var Harnesses = map[string]func(*vrt.Ctx){
	"ParseLoad": ParseLoad,
}

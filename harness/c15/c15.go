// Package c15: malformed bytecode is rejected with an error, never a crash or
// a silent accept.
package c15

import (
	"context"

	"git.defalsify.org/vise.git/cache"
	"git.defalsify.org/vise.git/render"
	"git.defalsify.org/vise.git/state"
	"git.defalsify.org/vise.git/vm"
	"vharness/app"
	"vharness/vrt"
)

// refSym consumes a length-prefixed symbol (length 1..255).
func refSym(b []byte) ([]byte, bool) {
	if len(b) == 0 {
		return nil, false
	}
	l := int(b[0])
	if l == 0 || len(b) < 1+l {
		return nil, false
	}
	return b[1+l:], true
}

// refInt consumes a length-prefixed big-endian integer (length 0..4).
func refInt(b []byte) ([]byte, bool) {
	if len(b) == 0 {
		return nil, false
	}
	l := int(b[0])
	if l > 4 || len(b) < 1+l {
		return nil, false
	}
	return b[1+l:], true
}

// RefValid is the reference decoder of DESIGN.md appendix A.5: b is a
// concatenation of complete instructions with defined opcodes.
func RefValid(b []byte) bool {
	for len(b) > 0 {
		if len(b) < 2 {
			return false
		}
		op := uint16(b[0])<<8 | uint16(b[1])
		b = b[2:]
		ok := true
		switch op {
		case vm.NOOP, vm.HALT, vm.MSINK:
		case vm.CATCH:
			if b, ok = refSym(b); ok {
				if b, ok = refInt(b); ok {
					if len(b) == 0 {
						return false
					}
					b = b[1:]
				}
			}
		case vm.CROAK:
			if b, ok = refInt(b); ok {
				if len(b) == 0 {
					return false
				}
				b = b[1:]
			}
		case vm.LOAD:
			if b, ok = refSym(b); ok {
				b, ok = refInt(b)
			}
		case vm.RELOAD, vm.MAP, vm.MOVE:
			b, ok = refSym(b)
		case vm.INCMP, vm.MOUT, vm.MNEXT, vm.MPREV:
			if b, ok = refSym(b); ok {
				b, ok = refSym(b)
			}
		default:
			return false
		}
		if !ok {
			return false
		}
	}
	return true
}

// Bytes: every byte string of length L through the disassembler. No panic,
// and success only for strings the reference decoder accepts (and vice versa).
func Bytes(v *vrt.Ctx) {
	n := v.Param("L")
	b := v.Bytes("code", n)
	ph := vm.NewParseHandler().WithDefaultHandlers()
	_, err := ph.ToString(b)
	v.Observe("err", err)
	valid := RefValid(b)
	v.Observe("valid", valid)
	if err == nil {
		v.Cover("C15/accepted")
		v.Assert(valid, "C15/accepted-implies-valid")
	} else {
		v.Cover("C15/rejected")
		v.Assert(!valid, "C15/valid-implies-accepted")
	}
}

// LongSym: one symbol-taking instruction whose length byte is arbitrary, in a
// buffer of N bytes (N around the 255/256 boundary): decoded exactly or
// rejected, never a panic.
func LongSym(v *vrt.Ctx) {
	n := 253 + v.Choice("buflen", 6) // 253..258
	b := make([]byte, n)
	for i := range b {
		b[i] = 'a'
	}
	b[0] = v.U8("symlen")
	sym, rest, err := vm.ParseMove(b)
	v.Observe("err", err)
	l := int(b[0])
	if l == 0 || n < 1+l {
		v.Assert(err != nil, "C15/longsym-rejected")
		v.Cover("C15/longsym-reject")
		return
	}
	v.Assert(err == nil, "C15/longsym-accepted")
	v.Assert(len(sym) == l, "C15/longsym-length")
	v.Assert(len(rest) == n-1-l, "C15/longsym-rest")
	v.Observe("symlen", len(sym))
	v.Cover("C15/longsym-ok")
}

// ParseLoad: arbitrary bytes through the LOAD argument decoder (kept as the
// smallest smoke test of the executor).
func ParseLoad(v *vrt.Ctx) {
	n := v.Param("L")
	b := v.Bytes("code", n)
	sym, sz, rest, err := vm.ParseLoad(b)
	v.Observe("err", err)
	if err == nil {
		v.Observe("sym", sym)
		v.Observe("sz", sz)
		v.Observe("rest", len(rest))
		v.Cover("C15/parseload-ok")
	}
}

// refInt32 decodes a length-prefixed integer (reference).
func refInt32(b []byte) (uint32, []byte, bool) {
	if len(b) == 0 {
		return 0, nil, false
	}
	l := int(b[0])
	if l > 4 || len(b) < 1+l {
		return 0, nil, false
	}
	var n uint32
	for i := 0; i < l; i++ {
		n = n<<8 | uint32(b[1+i])
	}
	return n, b[1+l:], true
}

// flagOutOfRange: does the program contain a complete CATCH or CROAK whose
// flag index is outside the configured flag range? Executing such an
// instruction panics by documented design (state.GetFlag), which is not a
// decoding question.
func flagOutOfRange(b []byte, bits uint32) bool {
	for len(b) >= 2 {
		op := uint16(b[0])<<8 | uint16(b[1])
		b = b[2:]
		ok := true
		switch op {
		case vm.NOOP, vm.HALT, vm.MSINK:
		case vm.CATCH:
			if b, ok = refSym(b); ok {
				var n uint32
				if n, b, ok = refInt32(b); ok {
					if len(b) == 0 {
						return false
					}
					if n >= bits {
						return true
					}
					b = b[1:]
				}
			}
		case vm.CROAK:
			var n uint32
			if n, b, ok = refInt32(b); ok {
				if len(b) == 0 {
					return false
				}
				if n >= bits {
					return true
				}
				b = b[1:]
			}
		case vm.LOAD:
			if b, ok = refSym(b); ok {
				b, ok = refInt(b)
			}
		case vm.RELOAD, vm.MAP, vm.MOVE:
			b, ok = refSym(b)
		case vm.INCMP, vm.MOUT, vm.MNEXT, vm.MPREV:
			if b, ok = refSym(b); ok {
				b, ok = refSym(b)
			}
		default:
			return false
		}
		if !ok {
			return false
		}
	}
	return false
}

// Run: arbitrary bytes as bytecode through Vm.Run on a minimal VM (a state at
// the entry node, an application with a few nodes and one function): no
// panic; the run either executes complete instructions or returns an error.
func Run(v *vrt.Ctx) {
	n := v.Param("L")
	code := v.Bytes("code", n)
	rs := app.NewRes()
	rs.Funcs["f"] = app.Static("x")
	rs.Node("ab", "ab", app.Code().Halt().Bytes())
	rs.Node("_catch", "catch", app.Code().Halt().Bytes())
	st := state.NewState(8)
	ca := cache.NewCache()
	st.Down("root")
	ca.Push()
	st.SetInput([]byte("1"))
	vmi := vm.NewVm(st, rs, ca, render.NewSizer(0))
	var rest []byte
	var err error
	if v.Try(func() { rest, err = vmi.Run(context.Background(), code) }) {
		// the only admissible panic: a flag index outside the configured range
		v.Assert(flagOutOfRange(code, 16), "C15/run-panics-only-on-out-of-range-flag")
		v.Cover("C15/run-flag-out-of-range")
		return
	}
	v.Observe("err", err)
	if err == nil {
		v.Cover("C15/run-ok")
		// what is left over is pending code after a HALT: it must itself be
		// empty or begin at an instruction boundary of the input
		v.Assert(len(rest) <= len(code), "C15/run-returns-a-suffix")
	} else {
		v.Cover("C15/run-error")
	}
}

var Harnesses = map[string]func(*vrt.Ctx){
	"Run":       Run,
	"ParseLoad": ParseLoad,
	"Bytes":     Bytes,
	"LongSym":   LongSym,
}

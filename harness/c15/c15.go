// Package c15: malformed bytecode is rejected with an error, never a crash or
// a silent accept.
package c15

import (
	"git.defalsify.org/vise.git/vm"
	"vharness/vrt"
)

// refSym consumes a length-prefixed symbol (length 1..255).
func refSym(b []byte) ([]byte, bool) {
	if len(b) == 0 {
		return nil, false
	}
	l := int(b[0])
	if l == 0 || len(b) < 1+l {
		return nil, false
	}
	return b[1+l:], true
}

// refInt consumes a length-prefixed big-endian integer (length 0..4).
func refInt(b []byte) ([]byte, bool) {
	if len(b) == 0 {
		return nil, false
	}
	l := int(b[0])
	if l > 4 || len(b) < 1+l {
		return nil, false
	}
	return b[1+l:], true
}

// RefValid is the reference decoder of DESIGN.md appendix A.5: b is a
// concatenation of complete instructions with defined opcodes.
func RefValid(b []byte) bool {
	for len(b) > 0 {
		if len(b) < 2 {
			return false
		}
		op := uint16(b[0])<<8 | uint16(b[1])
		b = b[2:]
		ok := true
		switch op {
		case vm.NOOP, vm.HALT, vm.MSINK:
		case vm.CATCH:
			if b, ok = refSym(b); ok {
				if b, ok = refInt(b); ok {
					if len(b) == 0 {
						return false
					}
					b = b[1:]
				}
			}
		case vm.CROAK:
			if b, ok = refInt(b); ok {
				if len(b) == 0 {
					return false
				}
				b = b[1:]
			}
		case vm.LOAD:
			if b, ok = refSym(b); ok {
				b, ok = refInt(b)
			}
		case vm.RELOAD, vm.MAP, vm.MOVE:
			b, ok = refSym(b)
		case vm.INCMP, vm.MOUT, vm.MNEXT, vm.MPREV:
			if b, ok = refSym(b); ok {
				b, ok = refSym(b)
			}
		default:
			return false
		}
		if !ok {
			return false
		}
	}
	return true
}

// Bytes: every byte string of length L through the disassembler. No panic,
// and success only for strings the reference decoder accepts (and vice versa).
func Bytes(v *vrt.Ctx) {
	n := v.Param("L")
	b := v.Bytes("code", n)
	ph := vm.NewParseHandler().WithDefaultHandlers()
	_, err := ph.ToString(b)
	v.Observe("err", err)
	valid := RefValid(b)
	v.Observe("valid", valid)
	if err == nil {
		v.Cover("C15/accepted")
		v.Assert(valid, "C15/accepted-implies-valid")
	} else {
		v.Cover("C15/rejected")
		v.Assert(!valid, "C15/valid-implies-accepted")
	}
}

// LongSym: one symbol-taking instruction whose length byte is arbitrary, in a
// buffer of N bytes (N around the 255/256 boundary): decoded exactly or
// rejected, never a panic.
func LongSym(v *vrt.Ctx) {
	n := 253 + v.Choice("buflen", 6) // 253..258
	b := make([]byte, n)
	for i := range b {
		b[i] = 'a'
	}
	b[0] = v.U8("symlen")
	sym, rest, err := vm.ParseMove(b)
	v.Observe("err", err)
	l := int(b[0])
	if l == 0 || n < 1+l {
		v.Assert(err != nil, "C15/longsym-rejected")
		v.Cover("C15/longsym-reject")
		return
	}
	v.Assert(err == nil, "C15/longsym-accepted")
	v.Assert(len(sym) == l, "C15/longsym-length")
	v.Assert(len(rest) == n-1-l, "C15/longsym-rest")
	v.Observe("symlen", len(sym))
	v.Cover("C15/longsym-ok")
}

// ParseLoad: arbitrary bytes through the LOAD argument decoder (kept as the
// smallest smoke test of the executor).
func ParseLoad(v *vrt.Ctx) {
	n := v.Param("L")
	b := v.Bytes("code", n)
	sym, sz, rest, err := vm.ParseLoad(b)
	v.Observe("err", err)
	if err == nil {
		v.Observe("sym", sym)
		v.Observe("sz", sz)
		v.Observe("rest", len(rest))
		v.Cover("C15/parseload-ok")
	}
}

var Harnesses = map[string]func(*vrt.Ctx){
	"ParseLoad": ParseLoad,
	"Bytes":     Bytes,
	"LongSym":   LongSym,
}

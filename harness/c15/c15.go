// Package c15: malformed bytecode is rejected with an error, never a crash or
// a silent accept.
package c15

import (
	"context"

	"git.defalsify.org/vise.git/cache"
	"git.defalsify.org/vise.git/render"
	"git.defalsify.org/vise.git/state"
	"git.defalsify.org/vise.git/vm"
	"vharness/app"
	"vharness/vrt"
)

// refSym consumes a length-prefixed symbol (length 1..255).
func refSym(b []byte) ([]byte, bool) {
	if len(b) == 0 {
		return nil, false
	}
	l := int(b[0])
	if l == 0 || len(b) < 1+l {
		return nil, false
	}
	return b[1+l:], true
}

// refInt consumes a length-prefixed big-endian integer (length 0..4).
func refInt(b []byte) ([]byte, bool) {
	if len(b) == 0 {
		return nil, false
	}
	l := int(b[0])
	if l > 4 || len(b) < 1+l {
		return nil, false
	}
	return b[1+l:], true
}

// RefValid is the reference decoder of DESIGN.md appendix A.5: b is a
// concatenation of complete instructions with defined opcodes.
func RefValid(b []byte) bool {
	for len(b) > 0 {
		if len(b) < 2 {
			return false
		}
		op := uint16(b[0])<<8 | uint16(b[1])
		b = b[2:]
		ok := true
		switch op {
		case vm.NOOP, vm.HALT, vm.MSINK:
		case vm.CATCH:
			if b, ok = refSym(b); ok {
				if b, ok = refInt(b); ok {
					if len(b) == 0 {
						return false
					}
					b = b[1:]
				}
			}
		case vm.CROAK:
			if b, ok = refInt(b); ok {
				if len(b) == 0 {
					return false
				}
				b = b[1:]
			}
		case vm.LOAD:
			if b, ok = refSym(b); ok {
				b, ok = refInt(b)
			}
		case vm.RELOAD, vm.MAP, vm.MOVE:
			b, ok = refSym(b)
		case vm.INCMP, vm.MOUT, vm.MNEXT, vm.MPREV:
			if b, ok = refSym(b); ok {
				b, ok = refSym(b)
			}
		default:
			return false
		}
		if !ok {
			return false
		}
	}
	return true
}

// Bytes: every byte string of length L through the disassembler. No panic,
// and success only for strings the reference decoder accepts (and vice versa).
func Bytes(v *vrt.Ctx) {
	n := v.Param("L")
	b := v.Bytes("code", n)
	ph := vm.NewParseHandler().WithDefaultHandlers()
	_, err := ph.ToString(b)
	v.Observe("err", err)
	valid := RefValid(b)
	v.Observe("valid", valid)
	if err == nil {
		v.Cover("C15/accepted")
		v.Assert(valid, "C15/accepted-implies-valid")
	} else {
		v.Cover("C15/rejected")
		v.Assert(!valid, "C15/valid-implies-accepted")
	}
}

// LongSym: one symbol-taking instruction whose length byte is arbitrary, in a
// buffer of N bytes (N around the 255/256 boundary): decoded exactly or
// rejected, never a panic.
func LongSym(v *vrt.Ctx) {
	n := 253 + v.Choice("buflen", 6) // 253..258
	b := make([]byte, n)
	for i := range b {
		b[i] = 'a'
	}
	b[0] = v.U8("symlen")
	sym, rest, err := vm.ParseMove(b)
	v.Observe("err", err)
	l := int(b[0])
	if l == 0 || n < 1+l {
		v.Assert(err != nil, "C15/longsym-rejected")
		v.Cover("C15/longsym-reject")
		return
	}
	v.Assert(err == nil, "C15/longsym-accepted")
	v.Assert(len(sym) == l, "C15/longsym-length")
	v.Assert(len(rest) == n-1-l, "C15/longsym-rest")
	v.Observe("symlen", len(sym))
	v.Cover("C15/longsym-ok")
}

// LongInt: one CROAK or LOAD whose integer length byte is arbitrary (all 256
// values) in front of 0..8 arbitrary payload bytes and a mode byte: the
// decoders, the disassembler and the VM accept it only for lengths 0..4 with
// the payload complete (reference), and then with the value the bytes spell.
func LongInt(v *vrt.Ctx) {
	isLoad := v.Choice("instruction", 2) == 1
	l := v.U8("intlen")
	n := v.Choice("payload", 9)
	payload := v.Bytes("int", n)
	var arg []byte
	arg = append(arg, l)
	arg = append(arg, payload...)
	complete := int(l) <= 4 && n >= int(l)
	var want uint32
	if complete {
		for i := 0; i < int(l); i++ {
			want = want<<8 | uint32(payload[i])
		}
	}
	if isLoad {
		b := append([]byte{1, 's'}, arg...)
		_, sz, _, err := vm.ParseLoad(b)
		v.Observe("err", err)
		if !complete {
			v.Assert(err != nil, "C15/overlong-or-short-integer-rejected")
			v.Cover("C15/longint-reject")
			return
		}
		v.Assert(err == nil && sz == want, "C15/integer-decoded-exactly")
		v.Cover("C15/longint-ok")
		return
	}
	b := append(arg, 1) // the mode byte, unless the payload already ran into it
	_, _, _, err := vm.ParseCroak(b)
	code := append([]byte{0, byte(vm.CROAK)}, b...)
	_, derr := vm.NewParseHandler().WithDefaultHandlers().ParseAll(code)
	v.Observe("err", err)
	if int(l) > 4 || len(b) < 1+int(l)+1 {
		v.Assert(err != nil, "C15/overlong-or-short-integer-rejected")
		v.Assert(derr != nil, "C15/overlong-or-short-integer-rejected-by-the-disassembler")
		v.Cover("C15/longint-reject")
		return
	}
	v.Cover("C15/longint-ok")
}

// ParseLoad: arbitrary bytes through the LOAD argument decoder (kept as the
// smallest smoke test of the executor).
func ParseLoad(v *vrt.Ctx) {
	n := v.Param("L")
	b := v.Bytes("code", n)
	sym, sz, rest, err := vm.ParseLoad(b)
	v.Observe("err", err)
	if err == nil {
		v.Observe("sym", sym)
		v.Observe("sz", sz)
		v.Observe("rest", len(rest))
		v.Cover("C15/parseload-ok")
	}
}

// refInt32 decodes a length-prefixed integer (reference).
func refInt32(b []byte) (uint32, []byte, bool) {
	if len(b) == 0 {
		return 0, nil, false
	}
	l := int(b[0])
	if l > 4 || len(b) < 1+l {
		return 0, nil, false
	}
	var n uint32
	for i := 0; i < l; i++ {
		n = n<<8 | uint32(b[1+i])
	}
	return n, b[1+l:], true
}

// flagOutOfRange: does the program contain a complete CATCH or CROAK whose
// flag index is outside the configured flag range? Executing such an
// instruction panics by documented design (state.GetFlag), which is not a
// decoding question.
func flagOutOfRange(b []byte, bits uint32) bool {
	for len(b) >= 2 {
		op := uint16(b[0])<<8 | uint16(b[1])
		b = b[2:]
		ok := true
		switch op {
		case vm.NOOP, vm.HALT, vm.MSINK:
		case vm.CATCH:
			if b, ok = refSym(b); ok {
				var n uint32
				if n, b, ok = refInt32(b); ok {
					if len(b) == 0 {
						return false
					}
					if n >= bits {
						return true
					}
					b = b[1:]
				}
			}
		case vm.CROAK:
			var n uint32
			if n, b, ok = refInt32(b); ok {
				if len(b) == 0 {
					return false
				}
				if n >= bits {
					return true
				}
				b = b[1:]
			}
		case vm.LOAD:
			if b, ok = refSym(b); ok {
				b, ok = refInt(b)
			}
		case vm.RELOAD, vm.MAP, vm.MOVE:
			b, ok = refSym(b)
		case vm.INCMP, vm.MOUT, vm.MNEXT, vm.MPREV:
			if b, ok = refSym(b); ok {
				b, ok = refSym(b)
			}
		default:
			return false
		}
		if !ok {
			return false
		}
	}
	return false
}

// movesIntoCurrent: does the program contain a complete MOVE, INCMP or CATCH
// whose target is the node the session is at? Descending into the node one is
// already at panics by documented design (state.Down: "down into same node as
// previous"); like the flag range this is a question of what the program
// does, not of how it is decoded.
func movesIntoCurrent(b []byte, cur string) bool {
	for len(b) >= 2 {
		op := uint16(b[0])<<8 | uint16(b[1])
		b = b[2:]
		ok := true
		switch op {
		case vm.NOOP, vm.HALT, vm.MSINK:
		case vm.MOVE, vm.INCMP, vm.CATCH:
			if len(b) > 0 && int(b[0]) == len(cur) && len(b) >= 1+len(cur) && string(b[1:1+len(cur)]) == cur {
				return true
			}
			if len(b) > 0 && len(b) >= 1+int(b[0]) {
				cur = string(b[1 : 1+int(b[0])]) // taken as moved to
			}
			if b, ok = refSym(b); ok {
				switch op {
				case vm.INCMP:
					b, ok = refSym(b)
				case vm.CATCH:
					if b, ok = refInt(b); ok {
						if len(b) == 0 {
							return false
						}
						b = b[1:]
					}
				}
			}
		case vm.CROAK:
			if b, ok = refInt(b); ok {
				if len(b) == 0 {
					return false
				}
				b = b[1:]
			}
		case vm.LOAD:
			if b, ok = refSym(b); ok {
				b, ok = refInt(b)
			}
		case vm.RELOAD, vm.MAP:
			b, ok = refSym(b)
		case vm.MOUT, vm.MNEXT, vm.MPREV:
			if b, ok = refSym(b); ok {
				b, ok = refSym(b)
			}
		default:
			return false
		}
		if !ok {
			return false
		}
	}
	return false
}

// tailAfterMove: does the program consist of complete instructions, a MOVE,
// INCMP or CATCH among them, followed by a remainder the reference decoder
// rejects? The VM appends the target node's code to what is left of the
// running code, so such a remainder is decoded together with bytes it was
// never written with (finding F24).
func tailAfterMove(b []byte) bool {
	moved := false
	for len(b) >= 2 {
		op := uint16(b[0])<<8 | uint16(b[1])
		b = b[2:]
		ok := true
		switch op {
		case vm.NOOP, vm.MSINK:
		case vm.HALT:
			return false // execution stops here, what follows is not decoded
		case vm.CATCH:
			if b, ok = refSym(b); ok {
				if b, ok = refInt(b); ok {
					if len(b) == 0 {
						return moved
					}
					b = b[1:]
					moved = true
				}
			}
		case vm.CROAK:
			if b, ok = refInt(b); ok {
				if len(b) == 0 {
					return moved
				}
				return false // may end the run, as HALT
			}
		case vm.LOAD:
			if b, ok = refSym(b); ok {
				b, ok = refInt(b)
			}
		case vm.RELOAD, vm.MAP:
			b, ok = refSym(b)
		case vm.MOVE:
			if b, ok = refSym(b); ok {
				moved = true
			}
		case vm.INCMP:
			if b, ok = refSym(b); ok {
				if b, ok = refSym(b); ok {
					moved = true
				}
			}
		case vm.MOUT, vm.MNEXT, vm.MPREV:
			if b, ok = refSym(b); ok {
				b, ok = refSym(b)
			}
		default:
			return moved
		}
		if !ok {
			return moved
		}
	}
	return moved && len(b) > 0
}

// rejectedBeforeStop: reading instructions from the start, does the reference
// decoder reject one before execution can have stopped or moved (HALT, MOVE,
// INCMP, CATCH, CROAK)? The instructions before it (NOOP, MSINK, LOAD, RELOAD,
// MAP, MOUT, MNEXT, MPREV) either fail or fall through to it, so the run must
// end in an error.
func rejectedBeforeStop(b []byte) bool {
	for {
		if len(b) == 0 {
			return false
		}
		if len(b) < 2 {
			return true
		}
		op := uint16(b[0])<<8 | uint16(b[1])
		b = b[2:]
		ok := true
		switch op {
		case vm.NOOP, vm.MSINK:
		case vm.HALT, vm.MOVE, vm.INCMP, vm.CATCH, vm.CROAK:
			return false
		case vm.LOAD:
			if b, ok = refSym(b); ok {
				b, ok = refInt(b)
			}
		case vm.RELOAD, vm.MAP:
			b, ok = refSym(b)
		case vm.MOUT, vm.MNEXT, vm.MPREV:
			if b, ok = refSym(b); ok {
				b, ok = refSym(b)
			}
		default:
			return true
		}
		if !ok {
			return true
		}
	}
}

// AfterMatch: the client's input has just been matched by an INCMP; the bytes
// that follow in the same code (arbitrary) are still decoded, INCMP lines
// among them although they are inert now. Whatever the reference decoder
// rejects in what the VM gets to see - these bytes followed by the target
// node's code - before execution can stop or move again must end the run in
// an error, not be passed over.
func AfterMatch(v *vrt.Ctx) {
	tail := v.Bytes("code", v.Param("L"))
	rs := app.NewRes()
	rs.Funcs["f"] = app.Static("x")
	rs.Node("ab", "ab", app.Code().Halt().Bytes())
	rs.Node("_catch", "catch", app.Code().Halt().Bytes())
	st := state.NewState(8)
	ca := cache.NewCache()
	st.Down("root")
	ca.Push()
	st.SetInput([]byte("1"))
	st.SetFlag(state.FLAG_READIN)
	vmi := vm.NewVm(st, rs, ca, render.NewSizer(0))
	code := append(app.Code().InCmp("ab", "1").Bytes(), tail...)
	seen := append(append([]byte{}, tail...), app.Code().Halt().Bytes()...)
	var err error
	if v.Try(func() { _, err = vmi.Run(context.Background(), code) }) {
		if movesIntoCurrent(tail, "ab") {
			return
		}
		v.Assert(flagOutOfRange(seen, 16), "C15/run-panics-only-on-out-of-range-flag")
		return
	}
	v.Observe("err", err)
	if rejectedAfterMatch(seen) {
		v.Assert(err != nil, "C15/malformed-instruction-after-a-match-is-rejected")
		v.Cover("C15/aftermatch-malformed")
	} else {
		v.Cover("C15/aftermatch-other")
	}
}

// rejectedAfterMatch: as rejectedBeforeStop, but INCMP lines are decoded and
// passed over (a match has been made, they cannot move).
func rejectedAfterMatch(b []byte) bool {
	for {
		if len(b) == 0 {
			return false
		}
		if len(b) < 2 {
			return true
		}
		op := uint16(b[0])<<8 | uint16(b[1])
		b = b[2:]
		ok := true
		switch op {
		case vm.NOOP, vm.MSINK:
		case vm.HALT, vm.MOVE, vm.CATCH, vm.CROAK:
			return false
		case vm.LOAD:
			if b, ok = refSym(b); ok {
				b, ok = refInt(b)
			}
		case vm.RELOAD, vm.MAP:
			b, ok = refSym(b)
		case vm.INCMP, vm.MOUT, vm.MNEXT, vm.MPREV:
			if b, ok = refSym(b); ok {
				b, ok = refSym(b)
			}
		default:
			return true
		}
		if !ok {
			return true
		}
	}
}

// Run: arbitrary bytes as bytecode through Vm.Run on a minimal VM (a state at
// the entry node, an application with a few nodes and one function): no
// panic; the run either executes complete instructions or returns an error.
func Run(v *vrt.Ctx) {
	n := v.Param("L")
	code := v.Bytes("code", n)
	rs := app.NewRes()
	rs.Funcs["f"] = app.Static("x")
	rs.Node("ab", "ab", app.Code().Halt().Bytes())
	rs.Node("_catch", "catch", app.Code().Halt().Bytes())
	st := state.NewState(8)
	ca := cache.NewCache()
	st.Down("root")
	ca.Push()
	st.SetInput([]byte("1"))
	vmi := vm.NewVm(st, rs, ca, render.NewSizer(0))
	var rest []byte
	var err error
	if v.Try(func() { rest, err = vmi.Run(context.Background(), code) }) {
		// the only admissible panics are the two documented ones that concern
		// what a well-formed instruction does, not how it is decoded: a flag
		// index outside the configured range, a descent into the current node
		if movesIntoCurrent(code, "root") {
			v.Cover("C15/run-descends-into-current-node")
			return
		}
		v.Finding("F24-partial-instruction-after-a-move", tailAfterMove(code))
		v.Assert(flagOutOfRange(code, 16), "C15/run-panics-only-on-out-of-range-flag")
		v.Cover("C15/run-flag-out-of-range")
		return
	}
	v.Observe("err", err)
	if rejectedBeforeStop(code) {
		v.Assert(err != nil, "C15/run-rejects-a-malformed-instruction")
		v.Cover("C15/run-malformed")
	}
	if tailAfterMove(code) {
		// finding F24: the partial instruction is completed with the first
		// bytes of the target node's code instead of being rejected
		v.Finding("F24-partial-instruction-after-a-move", true)
		v.Assert(err != nil, "C15/run-rejects-a-partial-instruction-after-a-move")
	}
	if err == nil {
		v.Cover("C15/run-ok")
		// what is left over is pending code after a HALT: it must itself be
		// empty or begin at an instruction boundary of the input
		v.Assert(len(rest) <= len(code), "C15/run-returns-a-suffix")
	} else {
		v.Cover("C15/run-error")
	}
}

var Harnesses = map[string]func(*vrt.Ctx){
	"Run":        Run,
	"ParseLoad":  ParseLoad,
	"Bytes":      Bytes,
	"LongSym":    LongSym,
	"LongInt":    LongInt,
	"AfterMatch": AfterMatch,
}

// Package c12: saving session state to the filesystem store is crash-atomic.
package c12

import (
	"context"

	"git.defalsify.org/vise.git/cache"
	"git.defalsify.org/vise.git/db"
	fsdb "git.defalsify.org/vise.git/db/fs"
	"git.defalsify.org/vise.git/engine"
	"git.defalsify.org/vise.git/persist"
	"git.defalsify.org/vise.git/state"
	"vharness/app"
	"vharness/apps"
	"vharness/c17"
	"vharness/vrt"
)

func load(ctx context.Context, dir, session string) (c17.Snap, bool) {
	store := fsdb.NewFsDb()
	store.Connect(ctx, dir)
	pe := persist.NewPersister(store).WithContent(state.NewState(4), cache.NewCache())
	if pe.Load(session) != nil {
		return c17.Snap{}, false
	}
	return c17.Take(pe.GetState(), pe.Memory), true
}

// serve handles one request of a session with a fresh engine over the
// filesystem store in dir. With crashable the save (Finish) runs inside a
// crash window; the result says whether the process died there.
func serve(v *vrt.Ctx, ctx context.Context, dir, session string, in []byte, crashable bool) bool {
	crashed, err := serveErr(v, ctx, dir, session, in, crashable)
	v.Assume(err == nil)
	return crashed
}

func serveErr(v *vrt.Ctx, ctx context.Context, dir, session string, in []byte, crashable bool) (bool, error) {
	store := fsdb.NewFsDb()
	store.Connect(ctx, dir)
	cfg := engine.Config{Root: "root", FlagCount: 4, SessionId: session, OutputSize: 80}
	en := engine.NewEngine(cfg, apps.Intro()).WithPersister(persist.NewPersister(store))
	_, err := en.Exec(ctx, in)
	if err != nil {
		return false, err
	}
	en.Flush(ctx, &app.Sink{})
	if !crashable {
		return false, en.Finish(ctx)
	}
	return v.CrashWindow(8, func() { en.Finish(ctx) }), nil
}

// (The other session's id begins with the first one's and a dot: record names
// that share a prefix are what a clean-up by pattern would sweep up.)
// Crash: a session with a saved state is served one more request; the process
// dies at an arbitrary point while the new state is being saved. A later
// start finds the complete old or the complete new state, the engine
// continues that session, and another session's record is untouched.
func Crash(v *vrt.Ctx) {
	ctx := context.Background()
	dir, ref := v.TempDir(), v.TempDir()
	hist := v.Param("history")
	var inputs [][]byte
	for i := 0; i < hist; i++ {
		inputs = append(inputs, []byte{[]byte("1203")[v.Choice("input", 4)]})
	}
	last := []byte{[]byte("1203")[v.Choice("last-input", 4)]}
	// the same history in both directories; the reference one never crashes
	for _, d := range []string{dir, ref} {
		serve(v, ctx, d, "s1.b", nil, false)
		serve(v, ctx, d, "s1", nil, false)
		for _, in := range inputs {
			serve(v, ctx, d, "s1", in, false)
		}
	}
	other, ok := load(ctx, dir, "s1.b")
	// saves of one session (completed ones, so far) leave the other's record alone
	v.Assert(ok, "C12/other-sessions-untouched")
	if !ok {
		return
	}
	old, ok := load(ctx, dir, "s1")
	v.Assume(ok)
	serve(v, ctx, ref, "s1", last, false)
	want, ok := load(ctx, ref, "s1")
	v.Assume(ok)

	crashed := serve(v, ctx, dir, "s1", last, true)
	v.Observe("crashed", crashed)

	// a later start
	got, ok := load(ctx, dir, "s1")
	v.Assert(ok, "C12/record-loads-after-a-crash")
	isOld, isNew := c17.Same(v, got, old), c17.Same(v, got, want)
	if !crashed {
		v.Assert(isNew, "C12/completed-save-stores-the-new-state")
		v.Cover("C12/no-crash")
	} else {
		v.Assert(v.Or(isOld, isNew), "C12/record-is-the-old-or-the-new-state")
		if isNew {
			v.Cover("C12/crash-after-the-switch")
		} else {
			v.Cover("C12/crash-before-the-switch")
		}
	}
	// the engine continues that session rather than starting a new one
	_, cerr := serveErr(v, ctx, dir, "s1", []byte("0"), false)
	if cerr != nil {
		v.Observe("continue-error", cerr.Error())
	}
	v.Assert(cerr == nil, "C12/session-continues")
	after, ok := load(ctx, dir, "s1")
	v.Assert(ok, "C12/session-continues")
	v.Assert(after.Moves() >= got.Moves(), "C12/session-continues")
	other2, ok := load(ctx, dir, "s1.b")
	v.Assert(ok, "C12/other-sessions-untouched")
	v.Assert(c17.Same(v, other, other2), "C12/other-sessions-untouched")
}

// FirstSave: the session has no record yet (its previous state is "nothing
// saved"); the process dies at an arbitrary point of the session's very first
// request, in which the engine saves twice: once to register the new session,
// once with the state after execution. A later start finds no record at all,
// or a complete one - the registered or the final state - and never a record
// that exists and does not load.
func FirstSave(v *vrt.Ctx) {
	ctx := context.Background()
	dir, ref, reg := v.TempDir(), v.TempDir(), v.TempDir()
	serve(v, ctx, dir, "s1.b", nil, false)
	other, ok := load(ctx, dir, "s1.b")
	v.Assume(ok)
	first := func(d string, finish bool) {
		store := fsdb.NewFsDb()
		store.Connect(ctx, d)
		cfg := engine.Config{Root: "root", FlagCount: 4, SessionId: "s1", OutputSize: 80}
		en := engine.NewEngine(cfg, apps.Intro()).WithPersister(persist.NewPersister(store))
		if _, err := en.Exec(ctx, nil); err != nil {
			return
		}
		en.Flush(ctx, &app.Sink{})
		if finish {
			en.Finish(ctx)
		}
	}
	first(ref, true)
	want, ok := load(ctx, ref, "s1")
	v.Assume(ok)
	first(reg, false)
	registered, ok := load(ctx, reg, "s1")
	v.Assume(ok)

	crashed := v.CrashWindow(16, func() { first(dir, true) })
	v.Observe("crashed", crashed)

	store := fsdb.NewFsDb()
	store.Connect(ctx, dir)
	store.SetPrefix(db.DATATYPE_STATE)
	_, gerr := store.Get(ctx, []byte("s1"))
	got, ok := load(ctx, dir, "s1")
	if gerr != nil {
		v.Assert(db.IsNotFound(gerr), "C12/first-save-leaves-no-record-or-a-complete-one")
		v.Assert(crashed, "C12/completed-save-stores-the-new-state")
		v.Cover("C12/first-save-crash-leaves-no-record")
	} else {
		v.Assert(ok, "C12/first-save-leaves-no-record-or-a-complete-one")
		if !crashed {
			v.Assert(c17.Same(v, got, want), "C12/completed-save-stores-the-new-state")
			v.Cover("C12/first-save-no-crash")
		} else {
			v.Assert(v.Or(c17.Same(v, got, registered), c17.Same(v, got, want)), "C12/first-save-leaves-no-record-or-a-complete-one")
			v.Cover("C12/first-save-crash-leaves-a-record")
		}
	}
	// the session can be served from what is there
	_, cerr := serveErr(v, ctx, dir, "s1", []byte("1"), false)
	v.Assert(cerr == nil, "C12/session-continues")
	_, ok = load(ctx, dir, "s1")
	v.Assert(ok, "C12/session-continues")
	other2, ok := load(ctx, dir, "s1.b")
	v.Assert(ok, "C12/other-sessions-untouched")
	v.Assert(c17.Same(v, other, other2), "C12/other-sessions-untouched")
}

// WriteFault: the save of a new state meets a write error (a full disk, a
// quota, a size limit: part of the data gets out, the write fails, the
// process lives). Whatever the save reports, a later start finds a complete
// record: the new state if the save reported success, the old or the new one
// otherwise.
func WriteFault(v *vrt.Ctx) {
	ctx := context.Background()
	dir, ref := v.TempDir(), v.TempDir()
	last := []byte{[]byte("1203")[v.Choice("last-input", 4)]}
	for _, d := range []string{dir, ref} {
		serve(v, ctx, d, "s1.b", nil, false)
		serve(v, ctx, d, "s1", nil, false)
	}
	other, ok := load(ctx, dir, "s1.b")
	v.Assume(ok)
	old, ok := load(ctx, dir, "s1")
	v.Assume(ok)
	serve(v, ctx, ref, "s1", last, false)
	want, ok := load(ctx, ref, "s1")
	v.Assume(ok)

	var ferr error
	injected := v.WriteFault(func() { _, ferr = serveErr(v, ctx, dir, "s1", last, false) })
	v.Observe("injected", injected)
	v.Observe("save-error", ferr != nil)

	got, ok := load(ctx, dir, "s1")
	v.Assert(ok, "C12/record-loads-after-a-failed-write")
	if !ok {
		return
	}
	if ferr == nil {
		v.Assert(c17.Same(v, got, want), "C12/completed-save-stores-the-new-state")
	} else {
		v.Assert(injected, "C12/save-fails-only-on-a-fault")
		v.Assert(v.Or(c17.Same(v, got, old), c17.Same(v, got, want)), "C12/record-is-the-old-or-the-new-state")
		v.Cover("C12/write-fault-reported")
	}
	other2, ok := load(ctx, dir, "s1.b")
	v.Assert(ok, "C12/other-sessions-untouched")
	v.Assert(c17.Same(v, other, other2), "C12/other-sessions-untouched")
	v.Cover("C12/write-fault-done")
}

var Harnesses = map[string]func(*vrt.Ctx){
	"WriteFault": WriteFault,
	"FirstSave":  FirstSave,
	"Crash":      Crash,
	"Dbg":        Dbg,
}

// Dbg: development aid.
func Dbg(v *vrt.Ctx) {
	ctx := context.Background()
	dir := v.TempDir()
	store := fsdb.NewFsDb()
	store.Connect(ctx, dir)
	cfg := engine.Config{Root: "root", FlagCount: 4, SessionId: "s1.b", OutputSize: 80}
	en := engine.NewEngine(cfg, apps.Intro()).WithPersister(persist.NewPersister(store))
	_, err := en.Exec(ctx, nil)
	if err != nil {
		v.Observe("errtext", err.Error())
	}
	v.Observe("err", err)
}

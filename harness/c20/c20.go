// Package c20: session end restarts cleanly; termination stays blocked.
package c20

import (
	"context"

	"git.defalsify.org/vise.git/cache"
	"git.defalsify.org/vise.git/db"
	"git.defalsify.org/vise.git/db/mem"
	"git.defalsify.org/vise.git/engine"
	"git.defalsify.org/vise.git/persist"
	"git.defalsify.org/vise.git/resource"
	"git.defalsify.org/vise.git/state"
	"vharness/app"
	"vharness/c07"
	"vharness/c17"
	"vharness/vrt"
)

// endApp: from root (and one level down) the client can reach a node that
// ends gracefully (code runs out right after a HALT), one that ends
// abnormally (code runs out elsewhere) and one whose function sets TERMINATE.
// "mark" raises client flag 8 on the way.
func endApp(quiet bool) *app.Res {
	rs := app.NewRes()
	rs.Funcs["bye"] = app.Static("bye")
	rs.Funcs["hdr"] = app.Static("hdr")
	rs.Funcs["mark"] = func(ctx context.Context, sym string, input []byte) (resource.Result, error) {
		return resource.Result{Content: "m", FlagSet: []uint32{state.FLAG_USERSTART}}, nil
	}
	rs.Funcs["fterm"] = func(ctx context.Context, sym string, input []byte) (resource.Result, error) {
		return resource.Result{Content: "t", FlagSet: []uint32{state.FLAG_TERMINATE}}, nil
	}
	menu := func(c *app.P) *app.P {
		return c.Halt().InCmp("end1", "1").InCmp("abn", "2").InCmp("term", "3").InCmp("deeper", "4").InCmp("marked", "5").InCmp("end2", "6")
	}
	rs.Node("root", "root {{.hdr}}", menu(app.Code().Load("hdr", 8).Map("hdr").MOut("x", "1")).Bytes())
	rs.Node("deeper", "deeper", app.Code().Halt().InCmp("end1", "1").InCmp("abn", "2").InCmp("term", "3").InCmp("_", "0").InCmp("end2", "6").Bytes())
	// an end node whose last LOAD yields nothing: the final output is its page
	// and nothing else (the exit text is the LAST loaded value, which is empty)
	rs.Funcs["blank"] = app.Static("")
	rs.Node("end2", "fin {{.bye}}", app.Code().Load("bye", 8).Map("bye").Load("blank", 8).Halt().Bytes())
	rs.Node("marked", "marked {{.mark}}", app.Code().Load("mark", 4).Map("mark").Halt().InCmp("_", "0").Bytes())
	rs.Node("end1", "done {{.bye}}", app.Code().Load("bye", 8).Map("bye").Halt().Bytes())
	if quiet {
		// nothing is loaded on the way to the graceful end: the engine has no
		// "last value" to append to the final page
		rs.Node("root", "root", menu(app.Code().MOut("x", "1")).Bytes())
		rs.Node("end1", "done", app.Code().Halt().Bytes())
	}
	rs.Node("abn", "abn", app.Code().Load("bye", 8).Bytes())
	rs.Node("term", "term", app.Code().Load("fterm", 4).Halt().InCmp("_", "0").Bytes())
	rs.Node("_catch", "oops", app.Code().MOut("back", "0").Halt().InCmp("_", "*").Bytes())
	return rs
}

type world struct {
	cfg      engine.Config
	rs       *app.Res
	store    db.Db
	first    bool
	firstRan int
}

func (w *world) request(ctx context.Context, in []byte) (bool, error, string) {
	pe := persist.NewPersister(w.store)
	en := engine.NewEngine(w.cfg, w.rs).WithPersister(pe)
	if w.first {
		en = en.WithFirst(func(ctx context.Context, sym string, input []byte) (resource.Result, error) {
			w.firstRan++
			return resource.Result{}, nil
		})
	}
	cont, err := en.Exec(ctx, in)
	sink := &app.Sink{}
	en.Flush(ctx, sink)
	en.Finish(ctx)
	return cont, err, sink.S
}

func (w *world) stored() (*state.State, *cache.Cache, bool) {
	p := persist.NewPersister(w.store).WithContent(state.NewState(w.cfg.FlagCount), cache.NewCache())
	if p.Load(w.cfg.SessionId) != nil {
		return nil, nil, false
	}
	return p.GetState(), p.Memory, true
}

func flag(st *state.State, i uint32) bool { return st.Flags[i/8]&(1<<(i%8)) != 0 }

// End: K requests in persisted operation, continuing past the end of the
// session.
func End(v *vrt.Ctx) {
	k := v.Param("K")
	ctx := context.Background()
	quiet := v.Param("quiet") == 1
	w := &world{cfg: engine.Config{Root: "root", FlagCount: 4, SessionId: "s1", OutputSize: 60}, rs: endApp(quiet), first: v.Param("first") == 1}
	w.store = mem.NewMemDb()
	w.store.Connect(ctx, "")
	if w.first {
		v.Finding("F14-first-function-on-terminated-session", true)
	}
	blocked := false
	restarted := false
	marked := false
	for i := 0; i < k; i++ {
		var in []byte
		if i > 0 {
			in = c07.ASCII(v, c07.Input(v, 1))
		}
		var before c17.Snap
		if blocked {
			st, ca, ok := w.stored()
			v.Assert(ok, "C20/stored-session-readable")
			before = c17.Take(st, ca)
		}
		calls0 := w.rs.FuncCalls()
		hdr0 := w.rs.CallsOf("hdr")
		cont, err, out := w.request(ctx, in)
		v.Observe("cont", cont)
		v.Observe("out", out)
		st, ca, ok := w.stored()
		v.Assert(ok, "C20/stored-session-readable")
		if blocked {
			// every later request of a terminated session stays blocked (a
			// request whose input is refused reports its error instead of stop)
			if err == nil {
				v.Assert(!cont, "C20/terminated-session-reports-stop")
			}
			v.Assert(out == "", "C20/terminated-session-produces-no-output")
			v.Assert(w.rs.FuncCalls() == calls0, "C20/terminated-session-runs-nothing")
			v.Assert(c17.Same(v, before, c17.Take(st, ca)), "C20/terminated-session-does-not-change")
			v.Cover("C20/blocked-request")
			continue
		}
		if restarted {
			if err != nil {
				continue // refused input: C17; the restart is the next accepted request
			}
			// the request after a graceful end starts again at the entry node
			v.Assert(cont, "C20/restart-continues")
			v.Assert(len(st.ExecPath) == 1 && st.ExecPath[0] == "root", "C20/restart-at-entry-node")
			n := 0
			for _, fr := range ca.Cache {
				n += len(fr)
			}
			// the entry node has just loaded its own symbol afresh: nothing else
			// is cached, and there is exactly one scope per level again
			if quiet {
				v.Assert(n == 0, "C20/restart-with-empty-cache")
			} else {
				v.Assert(n == 1, "C20/restart-with-empty-cache")
				v.Assert(w.rs.CallsOf("hdr") == hdr0+1, "C20/restart-loads-afresh")
			}
			v.Assert(int(ca.Levels()) == len(st.ExecPath)+1, "C20/restart-with-empty-cache")
			if marked {
				v.Assert(flag(st, state.FLAG_USERSTART), "C20/restart-keeps-client-flags")
				v.Cover("C20/restart-kept-flag")
			}
			v.Cover("C20/restarted")
			restarted = false
			continue
		}
		if len(st.ExecPath) > 0 && st.ExecPath[len(st.ExecPath)-1] == "marked" {
			marked = true
		}
		if !cont && err == nil {
			if flag(st, state.FLAG_TERMINATE) {
				blocked = true
				v.Cover("C20/terminated")
			} else {
				// graceful end: the final output was delivered
				v.Assert(out != "", "C20/graceful-end-delivers-final-output")
				if string(in) == "6" {
					v.Assert(out == "fin bye", "C20/final-output-is-the-end-page-and-the-last-loaded-value")
				}
				// the exit text has been delivered with it: nothing of it stays
				// in the stored session to show up at a later end
				v.Assert(ca.LastValue == "", "C20/ended-session-keeps-no-exit-text")
				restarted = true
				v.Cover("C20/graceful-end")
			}
		}
	}
	v.Cover("C20/history-done")
}

// Unblock: once the stored TERMINATE flag is cleared the session runs again.
func Unblock(v *vrt.Ctx) {
	ctx := context.Background()
	w := &world{cfg: engine.Config{Root: "root", FlagCount: 4, SessionId: "s1", OutputSize: 60}, rs: endApp(false)}
	w.store = mem.NewMemDb()
	w.store.Connect(ctx, "")
	w.request(ctx, nil)
	cont, _, _ := w.request(ctx, []byte("2")) // abnormal end
	v.Assert(!cont, "C20/abnormal-end-reports-stop")
	cont, _, out := w.request(ctx, []byte("1"))
	v.Assert(!cont && out == "", "C20/terminated-session-produces-no-output")
	st, ca, ok := w.stored()
	v.Assume(ok)
	st.ResetFlag(state.FLAG_TERMINATE)
	v.Assert(persist.NewPersister(w.store).WithContent(st, ca).Save("s1") == nil, "C20/save-ok")
	calls0 := len(w.rs.Log)
	w.request(ctx, []byte("1"))
	v.Assert(len(w.rs.Log) > calls0, "C20/cleared-flag-unblocks-the-session")
	v.Cover("C20/unblocked")
}

var Harnesses = map[string]func(*vrt.Ctx){
	"End":     End,
	"Unblock": Unblock,
}

// Package c18: the selected language reaches every lookup and survives the
// session.
package c18

import (
	"context"
	"git.defalsify.org/vise.git/cache"

	"git.defalsify.org/vise.git/db"
	"git.defalsify.org/vise.git/db/mem"
	"git.defalsify.org/vise.git/engine"
	"git.defalsify.org/vise.git/lang"
	"git.defalsify.org/vise.git/persist"
	"git.defalsify.org/vise.git/resource"
	"git.defalsify.org/vise.git/state"
	"vharness/app"
	"vharness/c07"
	"vharness/vrt"
)

var codes = []string{"eng", "nor", "no", "fr", "xx1", "zzzz"}
var part3 = map[string]string{"eng": "eng", "nor": "nor", "no": "nor", "fr": "fra"}

// langApp: node "pick" loads a function that returns a language code together
// with the LANG flag; the other nodes use templates, menu labels and a
// function so that every kind of lookup is made.
func langApp(code1, code2 string) *app.Res {
	rs := app.NewRes()
	setter := func(code string) resource.EntryFunc {
		return func(ctx context.Context, sym string, input []byte) (resource.Result, error) {
			return resource.Result{Content: code, FlagSet: []uint32{state.FLAG_LANG}}, nil
		}
	}
	rs.Funcs["setone"] = setter(code1)
	rs.Funcs["settwo"] = setter(code2)
	// ordinary functions whose content happens to read like a language code:
	// without the LANG flag it is content, not a selection
	rs.Funcs["info"] = app.Static("fra")
	rs.Node("root", "root", app.Code().MOut("one", "1").MOut("two", "2").MOut("show", "3").Halt().InCmp("pickone", "1").InCmp("picktwo", "2").InCmp("show", "3").Bytes())
	// after the switch the same run goes on and looks a function up again
	// (LOAD of another symbol before the HALT): already in the new language
	rs.Funcs["after"] = app.Static("nor")
	rs.Node("pickone", "picked", app.Code().Load("setone", 10).Load("after", 10).MOut("back", "0").Halt().InCmp("_", "0").Bytes())
	rs.Node("picktwo", "picked", app.Code().Load("settwo", 10).Load("after", 10).MOut("back", "0").Halt().InCmp("_", "0").Bytes())
	rs.Node("show", "show {{.info}}", app.Code().Load("info", 10).Map("info").MOut("back", "0").Halt().InCmp("_", "0").Bytes())
	rs.Node("_catch", "oops", app.Code().MOut("back", "0").Halt().InCmp("_", "*").Bytes())
	return rs
}

// Lang: K requests with symbolic inputs; the language seen by the recording
// resource on every lookup must be the one in force.
func Lang(v *vrt.Ctx) {
	k := v.Param("K")
	persisted := v.Param("persisted") == 1
	// persisted=2: nothing is stored, but every request is served by a new
	// engine built around the same state and cache objects (a process that
	// keeps its sessions in memory)
	perRequest := v.Param("persisted") == 2
	st, ca := state.NewState(4), cache.NewCache()
	c1 := codes[v.Choice("code-one", len(codes))]
	c2 := codes[v.Choice("code-two", len(codes))]
	cfgLang := []string{"", "nor"}[v.Choice("config-language", 2)]
	rs := langApp(c1, c2)
	ctx := context.Background()
	cfg := engine.Config{Root: "root", FlagCount: 4, SessionId: "s1", OutputSize: 80, Language: cfgLang}
	var store db.Db
	var en *engine.DefaultEngine
	if persisted {
		m := mem.NewMemDb()
		m.Connect(ctx, "")
		store = m
	} else {
		en = engine.NewEngine(cfg, rs)
	}
	cur := cfgLang
	for i := 0; i < k; i++ {
		var in []byte
		if i > 0 {
			in = c07.ASCII(v, c07.Input(v, 1))
		}
		if persisted {
			en = engine.NewEngine(cfg, rs).WithPersister(persist.NewPersister(store))
		}
		if perRequest {
			en = engine.NewEngine(cfg, rs).WithState(st).WithMemory(ca)
		}
		mark := len(rs.Log)
		cont, err := en.Exec(ctx, in)
		en.Flush(ctx, &app.Sink{})
		if persisted {
			en.Finish(ctx)
		}
		v.Observe("cont", cont)
		v.Observe("err", err)
		// walk the lookups of this request
		for _, c := range rs.Log[mark:] {
			if c.Kind == "func" && (c.Sym == "setone" || c.Sym == "settwo") {
				// the setter itself is still looked up in the old language
				v.Assert(c.Lang == cur, "C18/lookup-carries-the-language-in-force")
				code := c1
				if c.Sym == "settwo" {
					code = c2
				}
				if p3, ok := part3[code]; ok {
					cur = p3
					v.Cover("C18/switched")
				} else {
					v.Cover("C18/invalid-code-ignored")
				}
				continue
			}
			v.Assert(c.Lang == cur, "C18/lookup-carries-the-language-in-force")
		}
		if !cont {
			break
		}
	}
	v.Cover("C18/history-done")
}

// Translate: a DbResource over the memory store holds default entries and,
// for an arbitrary subset, translations; lookups made in a language return
// the translation when present and the default entry otherwise.
func Translate(v *vrt.Ctx) {
	ctx := context.Background()
	store := mem.NewMemDb()
	store.Connect(ctx, "")
	// the language looked up in: Norwegian, or English (which is also the
	// library's nominal default code: a stored English translation is a
	// translation like any other)
	nor, _ := lang.LanguageFromCode([]string{"nor", "eng"}[v.Choice("translation-language", 2)])
	put := func(typ uint8, key string, l *lang.Language, val string) {
		store.SetLock(typ, false)
		store.SetPrefix(typ)
		store.SetLanguage(l)
		v.Assert(store.Put(ctx, []byte(key), []byte(val)) == nil, "C18/put-ok")
		store.SetLanguage(nil)
		store.SetLock(typ, true)
	}
	haveTpl, haveMenu, haveStatic := v.Bool("template-translated"), v.Bool("menu-translated"), v.Bool("static-translated")
	put(db.DATATYPE_TEMPLATE, "node", nil, "default template")
	put(db.DATATYPE_MENU, "label_menu", nil, "default label")
	put(db.DATATYPE_STATICLOAD, "stat", nil, "default static")
	if haveTpl {
		put(db.DATATYPE_TEMPLATE, "node", &nor, "norsk mal")
	}
	if haveMenu {
		put(db.DATATYPE_MENU, "label_menu", &nor, "norsk etikett")
	}
	if haveStatic {
		put(db.DATATYPE_STATICLOAD, "stat", &nor, "norsk statisk")
	}
	rs := resource.NewDbResource(store)
	rs.With(db.DATATYPE_STATICLOAD)
	// the same resource answers several lookups in a row, each in a language
	// of its own (a session switches language; sessions share a resource):
	// every answer follows the language of that lookup, not of an earlier one
	for round := 0; round < 2; round++ {
		useLang := v.Bool("lookup-in-norwegian")
		lctx := ctx
		if useLang {
			lctx = context.WithValue(ctx, "Language", nor)
		}
		tpl, err := rs.GetTemplate(lctx, "node")
		v.Assert(err == nil, "C18/template-found")
		menu, err := rs.GetMenu(lctx, "label")
		v.Assert(err == nil, "C18/menu-found")
		fn, err := rs.FuncFor(lctx, "stat")
		v.Assert(err == nil && fn != nil, "C18/static-found")
		res, _ := fn(lctx, "stat", nil)
		want := func(have bool, tr, def string) string {
			if useLang && have {
				return tr
			}
			return def
		}
		v.Assert(tpl == want(haveTpl, "norsk mal", "default template"), "C18/translation-else-default")
		v.Assert(menu == want(haveMenu, "norsk etikett", "default label"), "C18/translation-else-default")
		v.Assert(res.Content == want(haveStatic, "norsk statisk", "default static"), "C18/translation-else-default")
		v.Observe("tpl", tpl)
	}
	v.Cover("C18/translate")
}

var Harnesses = map[string]func(*vrt.Ctx){
	"Lang":      Lang,
	"Translate": Translate,
}

// Package c04: navigation stack and page index follow the documented move
// table, whether the move comes from MOVE, INCMP or CATCH.
package c04

import (
	"context"

	"git.defalsify.org/vise.git/cache"
	"git.defalsify.org/vise.git/engine"
	"git.defalsify.org/vise.git/render"
	"git.defalsify.org/vise.git/state"
	"git.defalsify.org/vise.git/vm"
	"vharness/app"
	"vharness/vrt"
)

var names = []string{"n0", "n1", "n2", "n3"}
var targets = []string{"tgt", "_", "^", ".", ">", "<"}

type pos struct {
	path []string
	idx  uint16
}

// move is the documented table (appendix A.1). ok=false: the move fails.
func move(p pos, t string) (pos, bool) {
	switch t {
	case "_":
		if len(p.path) == 1 {
			return p, false
		}
		return pos{append([]string{}, p.path[:len(p.path)-1]...), 0}, true
	case "^":
		if len(p.path) == 1 {
			return p, true // index at the entry node is not specified
		}
		return pos{[]string{p.path[0]}, 0}, true
	case ".":
		return p, true
	case ">":
		return pos{p.path, p.idx + 1}, true
	case "<":
		if p.idx == 0 {
			return p, false
		}
		return pos{p.path, p.idx - 1}, true
	}
	return pos{append(append([]string{}, p.path...), t), 0}, true
}

func samePath(a, b []string) bool {
	if len(a) != len(b) {
		return false
	}
	for i := range a {
		if a[i] != b[i] {
			return false
		}
	}
	return true
}

// Step: one move, issued by MOVE, by a matching INCMP or by a firing CATCH,
// from an arbitrary position (depth 1..D, arbitrary page index).
func Step(v *vrt.Ctx) {
	depth := 1 + v.Choice("depth", v.Param("D"))
	t := targets[v.Choice("target", len(targets))]
	how := v.Choice("issued-by", 3) // 0 MOVE, 1 INCMP, 2 CATCH

	rs := app.NewRes()
	for _, n := range names {
		rs.Node(n, n, app.Code().Halt().Bytes())
	}
	rs.Node("tgt", "tgt", app.Code().Halt().Bytes())
	rs.Node("elsewhere", "elsewhere", app.Code().Halt().Bytes())
	rs.Node("_catch", "catch", app.Code().Halt().Bytes())

	st := state.NewState(8)
	ca := cache.NewCache()
	// node names on the stack may repeat (a node can be entered again deeper
	// down, the entry node included), only not directly under itself
	prev := ""
	for i := 0; i < depth; i++ {
		n := names[v.Choice("node", 3)]
		if i == 0 {
			n = names[0]
		}
		v.Assume(n != prev)
		st.Down(n)
		ca.Push()
		prev = n
	}
	if t == "tgt" && prev == "tgt" {
		return
	}
	start := pos{append([]string{}, st.ExecPath...), v.U16("startidx")}
	v.Assume(start.idx < 65535)
	st.SizeIdx = start.idx
	vmi := vm.NewVm(st, rs, ca, render.NewSizer(0))
	ctx := context.Background()

	var code []byte
	switch how {
	case 0:
		code = app.Code().Move(t).Bytes()
	case 1:
		st.SetInput([]byte("1"))
		c := app.Code().InCmp(t, "1")
		if v.Choice("followed-by-a-catch-all", 2) == 1 {
			// the usual last line of a menu: it must stay inert, the line
			// above has decided the request (also when its move fails)
			c.InCmp("elsewhere", "*")
		}
		code = c.Bytes()
	case 2:
		flag := 8 + uint32(v.Choice("flag", 8))
		mode := v.Bool("mode")
		if mode {
			st.SetFlag(flag)
		}
		code = app.Code().Catch(t, flag, mode).Bytes()
	}
	_, err := vmi.Run(ctx, code)
	v.Observe("err", err)
	want, ok := move(start, t)
	if !ok {
		if how == 1 && t == "<" {
			// a failing 'previous' from input counts as no match: catch node
			want = pos{append(append([]string{}, start.path...), "_catch"), 0}
			v.Assert(err == nil, "C04/incmp-previous-at-first-page-is-no-match")
			v.Cover("C04/incmp-prev-at-0")
		} else {
			v.Assert(err != nil, "C04/failing-move-reports-error")
			v.Cover("C04/failing-move")
			return
		}
	} else {
		v.Assert(err == nil, "C04/move-ok")
		v.Cover("C04/moved")
	}
	v.Observe("depth", len(st.ExecPath))
	v.Assert(samePath(st.ExecPath, want.path), "C04/path-follows-table")
	if !(t == "^" && depth == 1) {
		v.Assert(st.SizeIdx == want.idx, "C04/index-follows-table")
	}
	v.Assert(int(ca.Levels()) == len(want.path)+1, "C04/one-cache-scope-per-level")
}

// Seq: K requests through the engine on an application whose every node
// offers all kinds of moves; the input byte of each request is symbolic.
func Seq(v *vrt.Ctx) {
	k := v.Param("K")
	rs := app.NewRes()
	node := func(child string) []byte {
		return app.Code().Halt().InCmp(child, "1").InCmp("_", "2").InCmp("^", "3").InCmp(".", "4").InCmp(">", "5").InCmp("<", "6").Bytes()
	}
	rs.Node("root", "root", node("aa"))
	rs.Node("aa", "aa", node("bb"))
	rs.Node("bb", "bb", node("root")) // the entry node can be entered again deeper down
	rs.Node("_catch", "catch", app.Code().Halt().InCmp("_", "*").Bytes())
	en := engine.NewEngine(engine.Config{Root: "root"}, rs)
	st := state.NewState(0)
	ca := cache.NewCache()
	en = en.WithState(st).WithMemory(ca)
	ctx := context.Background()
	_, err := en.Exec(ctx, []byte{})
	v.Assume(err == nil)
	en.Flush(ctx, &app.Sink{})
	cur := pos{[]string{"root"}, 0}
	child := map[string]string{"root": "aa", "aa": "bb", "bb": "root"}
	for i := 0; i < k; i++ {
		in := v.U8("input")
		v.Assume(in >= '1' && in <= '7')
		cont, err := en.Exec(ctx, []byte{in})
		v.Observe("cont", cont)
		v.Observe("err", err)
		// the page is fetched after every request; a render failure (lateral
		// move on a single-page node) is reported to the client there and
		// is not a navigation question
		en.Flush(ctx, &app.Sink{})
		top := cur.path[len(cur.path)-1]
		var t string
		switch in {
		case '1':
			t = child[top]
		case '2':
			t = "_"
		case '3':
			t = "^"
		case '4':
			t = "."
		case '5':
			t = ">"
		case '6':
			t = "<"
		default:
			t = ""
		}
		if top == "_catch" {
			t = "_"
		}
		if t == "" {
			cur = pos{append(append([]string{}, cur.path...), "_catch"), 0}
		} else if want, ok := move(cur, t); ok {
			cur = want
		} else if t == "<" {
			cur = pos{append(append([]string{}, cur.path...), "_catch"), 0}
		} else {
			// '_' at the entry node: fails and terminates execution
			v.Assert(err != nil || !cont, "C04/seq-up-at-entry-fails")
			v.Cover("C04/seq-up-at-entry")
			return
		}
		v.Assert(err == nil, "C04/seq-exec-ok")
		v.Assert(samePath(st.ExecPath, cur.path), "C04/seq-path-follows-table")
		v.Assert(st.SizeIdx == cur.idx, "C04/seq-index-follows-table")
		v.Assert(int(ca.Levels()) == len(cur.path)+1, "C04/seq-one-cache-scope-per-level")
	}
	v.Cover("C04/seq-done")
}

var Harnesses = map[string]func(*vrt.Ctx){
	"Step": Step,
	"Seq":  Seq,
}

module vharness

go 1.23

require (
	git.defalsify.org/vise.git v0.0.0
	github.com/jackc/pgx/v5 v5.7.0
)

require (
	github.com/alecthomas/participle/v2 v2.0.0 // indirect
	github.com/barbashov/iso639-3 v0.0.0-20211020172741-1f4ffb2d8d1c // indirect
	github.com/fxamacker/cbor/v2 v2.4.0 // indirect
	github.com/jackc/pgpassfile v1.0.0 // indirect
	github.com/jackc/pgservicefile v0.0.0-20240606120523-5a60cdf6a761 // indirect
	github.com/jackc/puddle/v2 v2.2.1 // indirect
	github.com/mattn/kinako v0.0.0-20170717041458-332c0a7e205a // indirect
	github.com/x448/float16 v0.8.4 // indirect
	golang.org/x/crypto v0.27.0 // indirect
	golang.org/x/sync v0.8.0 // indirect
	golang.org/x/text v0.18.0 // indirect
	gopkg.in/leonelquinteros/gotext.v1 v1.3.1 // indirect
)

replace git.defalsify.org/vise.git => /repo

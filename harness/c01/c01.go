// Package c01: every rendered page fits the configured output size.
package c01

import (
	"context"
	"fmt"

	"git.defalsify.org/vise.git/cache"
	"git.defalsify.org/vise.git/engine"
	"git.defalsify.org/vise.git/render"
	"vharness/app"
	"vharness/apps"
	"vharness/vrt"
)

const chunkMax = 1<<24 - 1

// Check: the size guard kernel. For every output size > 0 and every string
// length below 2^32: ok implies the string fits and the remainder is exact.
func Check(v *vrt.Ctx) {
	size := v.U32("outputsize")
	v.Assume(size > 0)
	s := v.Opaque("len", 'x', 0, 1<<32-1)
	szr := render.NewSizer(size)
	rem, ok := szr.Check(s)
	v.Observe("ok", ok)
	if ok {
		v.Assert(uint64(len(s)) <= uint64(size), "C01/check-ok-implies-fits")
		v.Assert(uint64(rem) == uint64(size)-uint64(len(s)), "C01/check-remaining-is-exact")
		v.Cover("C01/check-fits")
	} else {
		v.Assert(uint64(len(s)) > uint64(size), "C01/check-rejects-only-oversized")
		v.Cover("C01/check-rejects")
	}
}

// Cfg is one symbolic page configuration.
type Cfg struct {
	Size     uint32
	Static   string
	HasVal   bool
	Val      string
	Limit    uint16
	HasSink  bool
	Rows     []string
	Menu     [][2]string
	Browse   int // 0 off, 1 next, 2 next+prev
	NextSel  string
	NextTtl  string
	PrevSel  string
	PrevTtl  string
	MenuSink bool
	ErrText  string
	HasErr   bool
	Resolved string // if non-empty: the browse "next" label resolves to this text
	Sep      string // if non-empty: the menu separator (Menu.WithSeparator / Config.MenuSeparator)
}

// Draw builds a symbolic configuration. Row lengths >= minRow.
func Draw(v *vrt.Ctx, nrows int, minRow int) *Cfg {
	c := &Cfg{}
	c.Size = v.U32("outputsize")
	v.Assume(c.Size > 0)
	c.Static = v.Opaque("static", 'T', 0, chunkMax)
	shape := v.Choice("template-shape", 4) // 0 static, 1 static+value, 2 static+sink, 3 value+sink
	c.HasVal = shape == 1 || shape == 3
	c.HasSink = shape == 2 || shape == 3
	if c.HasVal {
		c.Limit = v.U16("value-limit")
		v.Assume(c.Limit > 0)
		c.Val = v.Opaque("value", 'V', 0, 65535)
		v.Assume(len(c.Val) <= int(c.Limit))
	}
	if c.HasSink {
		for i := 0; i < nrows; i++ {
			c.Rows = append(c.Rows, v.Opaque("row", byte('a'+i), minRow, chunkMax))
		}
	}
	nm := v.Choice("menu-entries", 3)
	for i := 0; i < nm; i++ {
		c.Menu = append(c.Menu, [2]string{v.Opaque("menu-selector", byte('0'+i), 1, 255), v.Opaque("menu-title", byte('A'+i), 1, 255)})
	}
	c.Browse = v.Choice("browse", 3)
	if c.Browse >= 1 {
		c.NextSel, c.NextTtl = v.Opaque("next-selector", '8', 1, 255), v.Opaque("next-title", 'N', 1, 255)
	}
	if c.Browse >= 2 {
		c.PrevSel, c.PrevTtl = v.Opaque("prev-selector", '9', 1, 255), v.Opaque("prev-title", 'P', 1, 255)
	}
	if !c.HasSink && nm > 0 {
		c.MenuSink = v.Choice("menu-is-sink", 2) == 1
	}
	c.HasErr = v.Choice("error-prefix", 2) == 1
	if c.HasErr {
		c.ErrText = v.Opaque("error-text", 'E', 1, 255)
	}
	return c
}

func (c *Cfg) Template() string {
	t := c.Static
	if c.HasVal {
		t += "{{.val}}"
	}
	if c.HasSink {
		t += "\n{{.sink}}"
	}
	return t
}

func (c *Cfg) Content() string {
	s := ""
	for i, r := range c.Rows {
		if i > 0 {
			s += "\n"
		}
		s += r
	}
	return s
}

// Page builds a fresh, mapped page for the configuration through the
// exported API (what the VM does for every request).
func (c *Cfg) Page(v *vrt.Ctx) (*render.Page, bool) {
	rs := app.NewRes()
	rs.Node("node", c.Template(), nil)
	if c.Resolved != "" {
		rs.Menus[c.NextTtl] = c.Resolved
	}
	ca := cache.NewCache()
	if c.HasVal {
		if ca.Add("val", c.Val, c.Limit) != nil {
			return nil, false
		}
	}
	if c.HasSink {
		if ca.Add("sink", c.Content(), 0) != nil {
			return nil, false
		}
	}
	mn := render.NewMenu()
	if c.Sep != "" {
		mn = mn.WithSeparator(c.Sep)
	}
	cfg := render.BrowseConfig{}
	if c.Browse >= 1 {
		cfg.NextAvailable, cfg.NextSelector, cfg.NextTitle = true, c.NextSel, c.NextTtl
	}
	if c.Browse >= 2 {
		cfg.PreviousAvailable, cfg.PreviousSelector, cfg.PreviousTitle = true, c.PrevSel, c.PrevTtl
	}
	mn = mn.WithBrowseConfig(cfg)
	if c.MenuSink {
		mn = mn.WithSink().WithBrowseConfig(cfg).WithPages()
	}
	for _, e := range c.Menu {
		mn.Put(e[0], e[1])
	}
	pg := render.NewPage(ca, rs).WithMenu(mn).WithSizer(render.NewSizer(c.Size))
	if c.HasErr {
		pg = pg.WithError(fmt.Errorf("%s", c.ErrText))
	}
	if c.HasVal {
		if pg.Map("val") != nil {
			return nil, false
		}
	}
	if c.HasSink {
		if pg.Map("sink") != nil {
			return nil, false
		}
	}
	return pg, true
}

// runLen returns the total length of the runs of out carrying tag.
func runLen(runs []vrt.RunLen, tag byte) int {
	n := 0
	for _, r := range runs {
		if r.Tag == tag {
			n += r.Len
		}
	}
	return n
}

// Page: one render of an arbitrary configuration at an arbitrary index.
func Page(v *vrt.Ctx) {
	c := Draw(v, v.Param("rows"), 1)
	idx := v.U16("page-index")
	pg, ok := c.Page(v)
	v.Assume(ok)
	out, err := pg.Render(context.Background(), "node", idx)
	v.Observe("err", err)
	if err != nil {
		v.Cover("C01/render-fails")
		return
	}
	v.Cover("C01/render-ok")
	v.Observe("len", len(out))
	v.Assert(uint64(len(out)) <= uint64(c.Size), "C01/page-fits-output-size")
	// nothing is silently truncated: static text, value and ordinary menu
	// entries are there at full length
	runs := v.Runs(out)
	v.Assert(runLen(runs, 'T') == len(c.Static), "C01/static-text-complete")
	if c.HasVal {
		v.Assert(runLen(runs, 'V') == len(c.Val), "C01/value-complete")
	}
	if c.HasErr {
		v.Assert(runLen(runs, 'E') == len(c.ErrText), "C01/error-prefix-complete")
	}
	if !c.MenuSink {
		for i, e := range c.Menu {
			v.Assert(runLen(runs, byte('A'+i)) == len(e[1]), "C01/menu-entry-complete")
			v.Assert(runLen(runs, byte('0'+i)) == len(e[0]), "C01/menu-entry-complete")
		}
	}
}

// Engine: whatever the engine hands to the client through Flush is at most
// Config.OutputSize bytes, over histories of symbolic inputs and a symbolic
// output size, on the stock applications.
func Engine(v *vrt.Ctx) {
	k := v.Param("K")
	which := v.Param("app")
	ctx := context.Background()
	size := v.U32("outputsize")
	v.Assume(size > 0 && size <= 4096)
	cfg := engine.Config{Root: "root", FlagCount: 4, SessionId: "s1", OutputSize: size}
	if v.Param("sep") == 1 {
		// a configured menu separator of any length up to 255 bytes
		cfg.MenuSeparator = v.Opaque("menu-separator", 'S', 1, 255)
	}
	en := engine.NewEngine(cfg, apps.Get(which))
	for i := 0; i < k; i++ {
		var in []byte
		if i > 0 {
			in = v.Bytes("input", v.Choice("inputlen", 3))
			for _, b := range in {
				v.Assume(b != '{' && b < 0x80)
			}
		}
		cont, err := en.Exec(ctx, in)
		w := &app.Sink{}
		_, ferr := en.Flush(ctx, w)
		v.Observe("len", len(w.S))
		// F10: when the session ends after a HALT the engine writes the last
		// loaded value after the sized page
		v.Finding("F10-exit-value-at-session-end", err == nil && !cont)
		if ferr == nil {
			v.Assert(uint64(len(w.S)) <= uint64(size), "C01/engine-output-fits-output-size")
			v.Cover("C01/engine-page")
		} else {
			v.Assert(len(w.S) == 0, "C01/failed-flush-writes-nothing")
			v.Cover("C01/engine-render-fails")
		}
		if !cont {
			break
		}
	}
	v.Cover("C01/engine-history-done")
}

// BytePage: the page guarantee is about bytes. A page whose value, menu title
// and sink rows are symbolic *bytes* (any bytes but LF, NUL and '{': multi-byte
// UTF-8 and invalid sequences included), at a symbolic output size and index.
func BytePage(v *vrt.Ctx) {
	text := func(label string, n int) string {
		b := v.Bytes(label, n)
		for _, x := range b {
			v.Assume(x != '\n')
			v.Assume(x != 0)
			v.Assume(x != '{')
		}
		return string(b)
	}
	c := &Cfg{Static: "hd "}
	c.Size = v.U32("outputsize")
	v.Assume(c.Size > 0 && c.Size <= 48)
	c.HasVal, c.Limit = true, 8
	c.Val = text("value", 1+v.Choice("valuelen", 4))
	nrows := v.Param("rows")
	c.HasSink = nrows > 0
	for i := 0; i < nrows; i++ {
		c.Rows = append(c.Rows, text("row", 1+v.Choice("rowlen", 3)))
	}
	c.Menu = [][2]string{{"0", text("menu-title", 2)}}
	if c.HasSink {
		c.Browse = 2
		c.NextSel, c.NextTtl, c.PrevSel, c.PrevTtl = "1", "n", "2", "p"
	}
	idx := uint16(v.Choice("page-index", 3))
	pg, ok := c.Page(v)
	v.Assume(ok)
	out, err := pg.Render(context.Background(), "node", idx)
	if err != nil {
		v.Cover("C01/bytes-render-fails")
		return
	}
	v.Observe("len", len(out))
	v.Assert(uint64(len(out)) <= uint64(c.Size), "C01/byte-page-fits-output-size")
	v.Cover("C01/bytes-render-ok")
}

var Harnesses = map[string]func(*vrt.Ctx){
	"BytePage": BytePage,
	"Check":  Check,
	"Page":   Page,
	"Engine": Engine,
}

// Package pgfake is an in-process transactional fake of the pgx driver
// interface used by db/postgres (PgInterface, pgx.Tx, pgx.Rows). It keeps
// committed data and per-transaction pending writes, aborts a transaction on
// a failed statement (as PostgreSQL does), logs begin/commit/rollback per
// transaction and lets a harness inject a failure into any primitive call.
package pgfake

import (
	"context"
	"errors"

	pgx "github.com/jackc/pgx/v5"
	"github.com/jackc/pgx/v5/pgconn"
)

var ErrInjected = errors.New("injected driver fault")

type KV struct {
	K []byte
	V []byte
}

type TxRec struct {
	Begun      bool
	Committed  int // number of Commit calls
	RolledBack int // number of Rollback calls
	Ended      bool
	Aborted    bool // a statement failed inside it
	UsedAfter  bool // a statement was issued after it ended
	Pending    []KV
}

// Server is the fake database.
type Server struct {
	Data   []KV     // committed rows in insertion order
	Txs    []*TxRec // every transaction ever begun
	Closed bool
	// Fail is consulted before every primitive call with its name
	// ("begin", "exec", "query", "next", "scan", "commit", "rollback").
	Fail func(op string) bool
	// SortedScan: a range query ("key >= $1", no ORDER BY in the statement)
	// returns its rows in key order (an index scan) instead of insertion
	// order (a heap scan); PostgreSQL promises neither.
	SortedScan bool
}

// ErrTxClosed is what a transaction that has ended answers (pgx.ErrTxClosed
// in the driver; go-vise does not compare against it, so the fake has a
// value of its own that needs nothing of the pgx package initialised).
var ErrTxClosed = errors.New("tx is closed")

func New() *Server { return &Server{} }

func (s *Server) fail(op string) bool { return s.Fail != nil && s.Fail(op) }

func eq(a, b []byte) bool {
	if len(a) != len(b) {
		return false
	}
	for i := range a {
		if a[i] != b[i] {
			return false
		}
	}
	return true
}

// less: bytewise lexicographic order, as PostgreSQL compares bytea.
func less(a, b []byte) bool {
	for i := 0; i < len(a) && i < len(b); i++ {
		if a[i] != b[i] {
			return a[i] < b[i]
		}
	}
	return len(a) < len(b)
}

func containsGE(sql string) bool {
	for i := 0; i+1 < len(sql); i++ {
		if sql[i] == '>' && sql[i+1] == '=' {
			return true
		}
	}
	return false
}

// Lookup returns the committed value for key.
func (s *Server) Lookup(key []byte) ([]byte, bool) {
	for _, kv := range s.Data {
		if eq(kv.K, key) {
			return kv.V, true
		}
	}
	return nil, false
}

func (s *Server) OpenTxs() int {
	n := 0
	for _, t := range s.Txs {
		if t.Begun && !t.Ended {
			n++
		}
	}
	return n
}

func (s *Server) BeginTx(ctx context.Context, o pgx.TxOptions) (pgx.Tx, error) {
	if s.fail("begin") {
		return nil, ErrInjected
	}
	rec := &TxRec{Begun: true}
	s.Txs = append(s.Txs, rec)
	return &Tx{s: s, rec: rec}, nil
}

func (s *Server) Close() { s.Closed = true }

type Tx struct {
	s   *Server
	rec *TxRec
}

func (t *Tx) Begin(ctx context.Context) (pgx.Tx, error) { return nil, errors.New("nested tx not modelled") }

func (t *Tx) Commit(ctx context.Context) error {
	t.rec.Committed++
	if t.rec.Ended {
		return ErrTxClosed
	}
	if t.s.fail("commit") {
		// the commit did not happen; the server rolls the transaction back
		t.rec.Ended = true
		t.rec.Pending = nil
		return ErrInjected
	}
	t.rec.Ended = true
	if t.rec.Aborted {
		t.rec.Pending = nil
		return pgx.ErrTxCommitRollback
	}
	for _, kv := range t.rec.Pending {
		found := false
		for i := range t.s.Data {
			if eq(t.s.Data[i].K, kv.K) {
				t.s.Data[i].V = kv.V
				found = true
			}
		}
		if !found {
			t.s.Data = append(t.s.Data, kv)
		}
	}
	t.rec.Pending = nil
	return nil
}

func (t *Tx) Rollback(ctx context.Context) error {
	t.rec.RolledBack++
	if t.rec.Ended {
		return ErrTxClosed
	}
	t.rec.Ended = true
	t.rec.Pending = nil
	if t.s.fail("rollback") {
		return ErrInjected
	}
	return nil
}

func (t *Tx) CopyFrom(ctx context.Context, tableName pgx.Identifier, columnNames []string, rowSrc pgx.CopyFromSource) (int64, error) {
	return 0, errors.New("not modelled")
}
func (t *Tx) SendBatch(ctx context.Context, b *pgx.Batch) pgx.BatchResults { return nil }
func (t *Tx) LargeObjects() pgx.LargeObjects                               { return pgx.LargeObjects{} }
func (t *Tx) Prepare(ctx context.Context, name, sql string) (*pgconn.StatementDescription, error) {
	return nil, errors.New("not modelled")
}
func (t *Tx) Conn() *pgx.Conn { return nil }
func (t *Tx) QueryRow(ctx context.Context, sql string, args ...any) pgx.Row {
	return nil
}

// usable: a statement on an ended or aborted transaction fails.
func (t *Tx) usable() error {
	if t.rec.Ended {
		t.rec.UsedAfter = true
		return ErrTxClosed
	}
	if t.rec.Aborted {
		return errors.New("current transaction is aborted, commands ignored until end of transaction block")
	}
	return nil
}

// Exec understands the one statement db/postgres issues: upsert (key, value).
func (t *Tx) Exec(ctx context.Context, sql string, arguments ...any) (pgconn.CommandTag, error) {
	if err := t.usable(); err != nil {
		return pgconn.CommandTag{}, err
	}
	if t.s.fail("exec") {
		t.rec.Aborted = true
		return pgconn.CommandTag{}, ErrInjected
	}
	if len(arguments) == 2 {
		k, _ := arguments[0].([]byte)
		v, _ := arguments[1].([]byte)
		t.rec.Pending = append(t.rec.Pending, KV{K: append([]byte{}, k...), V: append([]byte{}, v...)})
	}
	return pgconn.CommandTag{}, nil
}

// Query understands "WHERE key = $1" (one argument, exact match; the
// transaction's own pending writes are visible to it) and "WHERE key >= $1"
// (range scan over the committed rows).
func (t *Tx) Query(ctx context.Context, sql string, args ...any) (pgx.Rows, error) {
	if err := t.usable(); err != nil {
		return nil, err
	}
	if t.s.fail("query") {
		t.rec.Aborted = true
		return nil, ErrInjected
	}
	r := &Rows{s: t.s, rec: t.rec}
	if len(args) == 1 && containsGE(sql) {
		// range scan over the committed rows: every row with key >= $1
		k, _ := args[0].([]byte)
		for _, kv := range t.s.Data {
			if !less(kv.K, k) {
				r.rows = append(r.rows, kv)
			}
		}
		if t.s.SortedScan {
			for i := 1; i < len(r.rows); i++ {
				for j := i; j > 0 && less(r.rows[j].K, r.rows[j-1].K); j-- {
					r.rows[j], r.rows[j-1] = r.rows[j-1], r.rows[j]
				}
			}
		}
		return r, nil
	}
	if len(args) == 1 {
		k, _ := args[0].([]byte)
		found := false
		for i := len(t.rec.Pending) - 1; i >= 0 && !found; i-- {
			if eq(t.rec.Pending[i].K, k) {
				r.rows = append(r.rows, t.rec.Pending[i])
				found = true
			}
		}
		if !found {
			if v, ok := t.s.Lookup(k); ok {
				r.rows = append(r.rows, KV{K: k, V: v})
			}
		}
	}
	return r, nil
}

type Rows struct {
	s      *Server
	rec    *TxRec
	rows   []KV
	cur    int
	closed bool
	err    error
}

func (r *Rows) Close()                                       { r.closed = true }
func (r *Rows) Err() error                                   { return r.err }
func (r *Rows) CommandTag() pgconn.CommandTag                { return pgconn.CommandTag{} }
func (r *Rows) FieldDescriptions() []pgconn.FieldDescription { return nil }
func (r *Rows) Values() ([]any, error)                       { return nil, errors.New("not modelled") }
func (r *Rows) RawValues() [][]byte                          { return nil }
func (r *Rows) Conn() *pgx.Conn                              { return nil }

func (r *Rows) Next() bool {
	if r.closed {
		return false
	}
	if r.s.fail("next") {
		// a failed fetch ends the result and breaks the transaction
		r.err = ErrInjected
		r.rec.Aborted = true
		r.closed = true
		return false
	}
	if r.cur >= len(r.rows) {
		r.closed = true
		return false
	}
	r.cur++
	return true
}

func (r *Rows) Scan(dest ...any) error {
	if r.s.fail("scan") {
		return ErrInjected
	}
	if r.cur == 0 || r.cur > len(r.rows) {
		return errors.New("scan without row")
	}
	row := r.rows[r.cur-1]
	switch len(dest) {
	case 1:
		if p, ok := dest[0].(*[]byte); ok {
			*p = append([]byte{}, row.V...)
		}
	case 2:
		if p, ok := dest[0].(*[]byte); ok {
			*p = append([]byte{}, row.K...)
		}
		if p, ok := dest[1].(*[]byte); ok {
			*p = append([]byte{}, row.V...)
		}
	}
	return nil
}

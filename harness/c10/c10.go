// Package c10: every storage backend behaves as the same keyed map.
package c10

import (
	"context"

	"git.defalsify.org/vise.git/db"
	fsdb "git.defalsify.org/vise.git/db/fs"
	"git.defalsify.org/vise.git/db/mem"
	"git.defalsify.org/vise.git/db/postgres"
	"git.defalsify.org/vise.git/lang"
	"vharness/pgfake"
	"vharness/vrt"
)

var types = []uint8{db.DATATYPE_BIN, db.DATATYPE_MENU, db.DATATYPE_TEMPLATE, db.DATATYPE_STATICLOAD, db.DATATYPE_STATE, db.DATATYPE_USERDATA}

// session ids: none, and two of which one begins with the other (ids are
// client numbers; a prefix of an id is an id)
var sessions = []string{"s12", "s1", ""}
var langs = []string{"", "eng", "nor"}

const translatable = db.DATATYPE_MENU | db.DATATYPE_TEMPLATE | db.DATATYPE_STATICLOAD
const sessioned = db.DATATYPE_STATE | db.DATATYPE_USERDATA
const lockable = db.DATATYPE_BIN | db.DATATYPE_MENU | db.DATATYPE_TEMPLATE | db.DATATYPE_STATICLOAD

// Open returns backend number which: 0 memory, 1 filesystem, 2 filesystem
// with binary keys, 3 postgres over the in-process fake.
func Open(v *vrt.Ctx, ctx context.Context, which int) db.Db {
	switch which {
	case 0:
		m := mem.NewMemDb()
		m.Connect(ctx, "")
		return m
	case 1:
		f := fsdb.NewFsDb()
		f.Connect(ctx, v.TempDir())
		return f
	case 2:
		f := fsdb.NewFsDb().WithBinary()
		f.Connect(ctx, v.TempDir())
		return f
	}
	p, _ := OpenPg()
	return p
}

// OpenPg: a Postgres store over a new fake server, and the server.
func OpenPg() (db.Db, *pgfake.Server) {
	srv := pgfake.New()
	return postgres.NewPgDb().WithConnection(srv), srv
}

// Key draws a well-formed key of 1..maxlen bytes: the documented symbol
// grammar ([a-zA-Z0-9] then [a-zA-Z0-9_]).
func Key(v *vrt.Ctx, maxlen int) string {
	n := 1 + v.Choice("keylen", maxlen)
	k := v.Str("key", n)
	for i := 0; i < n; i++ {
		c := k[i]
		alnum := v.Or(v.Or(v.And(c >= 'a', c <= 'z'), v.And(c >= 'A', c <= 'Z')), v.And(c >= '0', c <= '9'))
		if i == 0 {
			v.Assume(alnum)
		} else {
			v.Assume(v.Or(alnum, c == '_'))
		}
	}
	return k
}

// typeChar: the file-name character of a data type on the filesystem
// backend (type value + 0x30). A key that begins with one of them collides
// with the legacy "alternative" file names (finding F9).
func typeChar(v *vrt.Ctx, c byte) bool {
	return v.Or(v.Or(c == '1', c == '2'), v.Or(v.Or(c == '4', c == '8'), c == 'P'))
}

type entry struct {
	typ  uint8
	ses  string
	lang string
	key  string
	val  string
}

type model struct {
	e      []entry
	typ    uint8
	ses    string
	lang   string
	lock   uint8
	sealed bool
}

func (m *model) scope() (string, string) {
	ses, ln := "", ""
	if m.typ&sessioned != 0 {
		ses = m.ses
	}
	if m.typ&translatable != 0 {
		ln = m.lang
	}
	return ses, ln
}

func (m *model) find(typ uint8, ses, ln, key string) (string, bool) {
	for i := len(m.e) - 1; i >= 0; i-- {
		e := m.e[i]
		if e.typ == typ && e.ses == ses && e.lang == ln && e.key == key {
			return e.val, true
		}
	}
	return "", false
}

func language(code string) *lang.Language {
	if code == "" {
		return nil
	}
	l, _ := lang.LanguageFromCode(code)
	return &l
}

// Hist: K operations on one backend against the reference map (appendix A.6).
func Hist(v *vrt.Ctx) {
	k := v.Param("K")
	which := v.Param("backend")
	ctx := context.Background()
	store := Open(v, ctx, which)
	m := &model{lock: lockable}
	legacy := false
	isFs := which == 1 || which == 2
	for i := 0; i < k; i++ {
		nops := 6
		if which == 1 || which == 2 {
			nops = 7 // Dump is implemented on the filesystem backend
		}
		switch v.Choice("op", nops) {
		case 0: // Put
			key := Key(v, v.Param("keylen"))
			legacy = v.Or(legacy, typeChar(v, key[0]))
			val := string([]byte{byte('A' + i)})
			if v.Choice("empty-value", 2) == 1 {
				val = "" // an empty value is a value: the latest write, not an absence
			}
			err := store.Put(ctx, []byte(key), []byte(val))
			if m.typ == 0 {
				v.Assert(err != nil, "C10/put-without-a-data-type-is-refused")
				break
			}
			if m.typ&m.lock != 0 {
				v.Assert(err != nil, "C10/locked-write-is-refused")
				v.Cover("C10/put-refused")
				break
			}
			v.Assert(err == nil, "C10/put-ok")
			ses, ln := m.scope()
			m.e = append(m.e, entry{m.typ, ses, ln, key, val})
			v.Cover("C10/put")
		case 1: // Get
			key := Key(v, v.Param("keylen"))
			legacy = v.Or(legacy, typeChar(v, key[0]))
			v.Finding("F9-fs-legacy-file-names", v.And(isFs, legacy))
			got, err := store.Get(ctx, []byte(key))
			if m.typ == 0 {
				v.Assert(err != nil, "C10/get-without-a-data-type-is-refused")
				break
			}
			ses, ln := m.scope()
			want, have := m.find(m.typ, ses, ln, key)
			if !have && ln != "" {
				want, have = m.find(m.typ, ses, "", key) // default-language entry
				if have {
					v.Cover("C10/language-fallback")
				}
			}
			if have {
				v.Assert(err == nil, "C10/get-finds-the-latest-write")
				v.Assert(string(got) == want, "C10/get-returns-the-latest-write")
				v.Cover("C10/get-hit")
			} else {
				v.Assert(err != nil, "C10/get-of-unwritten-key-fails")
				v.Assert(db.IsNotFound(err), "C10/not-found-is-recognisable")
				v.Cover("C10/get-miss")
			}
		case 2:
			m.typ = types[v.Choice("type", len(types))]
			store.SetPrefix(m.typ)
		case 3:
			m.ses = sessions[v.Choice("session", len(sessions))]
			store.SetSession(m.ses)
		case 4:
			m.lang = langs[v.Choice("language", len(langs))]
			store.SetLanguage(language(m.lang))
		case 5: // SetLock
			t := uint8(0)
			if c := v.Choice("locktype", 5); c > 0 {
				t = types[c-1]
			}
			lock := v.Bool("lock")
			err := store.SetLock(t, lock)
			if m.sealed {
				v.Assert(err != nil, "C10/sealed-locks-cannot-be-changed")
				v.Cover("C10/sealed")
				break
			}
			v.Assert(err == nil, "C10/setlock-ok")
			if t == 0 {
				m.lock |= lockable
				m.sealed = true
			} else if lock {
				m.lock |= t
			} else {
				m.lock &^= t
			}
		case 6: // Dump (filesystem): exactly the stored keys with the prefix
			if m.typ == 0 {
				break
			}
			v.Finding("F18-fs-dump-with-translations", translatedPresent(m))
			pfx := ""
			if v.Bool("dump-with-prefix") {
				pfx = Key(v, 1)
			}
			ses, _ := m.scope()
			// expected: latest value per (key) in the current type and session,
			// default-language entries (a dump has no language)
			type kv struct{ k, val string }
			var want []kv
			for i := len(m.e) - 1; i >= 0; i-- {
				e := m.e[i]
				if e.typ != m.typ || e.ses != ses || e.lang != "" {
					continue
				}
				if len(e.key) < len(pfx) || e.key[:len(pfx)] != pfx {
					continue
				}
				dup := false
				for _, w := range want {
					if w.k == e.key {
						dup = true
					}
				}
				if !dup {
					want = append(want, kv{e.key, e.val})
				}
			}
			store.SetLanguage(nil)
			m.lang = ""
			d, err := store.Dump(ctx, []byte(pfx))
			if len(want) == 0 {
				v.Assert(err != nil, "C10/dump-of-nothing-is-not-found")
				v.Cover("C10/dump-empty")
				break
			}
			v.Assert(err == nil, "C10/dump-ok")
			seen := 0
			for j := 0; j <= len(want); j++ {
				kk, vv := d.Next(ctx)
				if kk == nil {
					break
				}
				found := false
				for _, w := range want {
					if w.k == string(kk) {
						found = true
						v.Assert(w.val == string(vv), "C10/dump-lists-the-stored-value")
					}
				}
				v.Assert(found, "C10/dump-lists-only-stored-keys-with-the-prefix")
				seen++
			}
			v.Assert(seen == len(want), "C10/dump-lists-every-stored-key-once")
			v.Cover("C10/dump")
		}
	}
	v.Cover("C10/history-done")
}

// Scoped: write under one (session, language), read under another, for every
// data type: latest write of the same scope, language fallback to the default
// entry, not-found otherwise.
func Scoped(v *vrt.Ctx) {
	which := v.Param("backend")
	ctx := context.Background()
	store := Open(v, ctx, which)
	m := &model{lock: lockable}
	m.typ = types[v.Choice("type", len(types))]
	store.SetPrefix(m.typ)
	if m.typ&lockable != 0 {
		v.Assert(store.SetLock(m.typ, false) == nil, "C10/setlock-ok")
		m.lock &^= m.typ
	}
	sessions, langs := sessions, langs
	if v.Param("small") == 1 {
		sessions, langs = sessions[:2], []string{"", "nor"}
	}
	legacy := false
	isFs := which == 1 || which == 2
	writes := 1 + v.Choice("writes", 2)
	for i := 0; i < writes; i++ {
		m.ses = sessions[v.Choice("session", len(sessions))]
		store.SetSession(m.ses)
		m.lang = langs[v.Choice("language", len(langs))]
		store.SetLanguage(language(m.lang))
		key := Key(v, v.Param("keylen"))
		legacy = v.Or(legacy, typeChar(v, key[0]))
		val := string([]byte{byte('A' + i)})
		if v.Choice("empty-value", 2) == 1 {
			val = "" // an empty value is a value: the latest write, not an absence
		}
		v.Assert(store.Put(ctx, []byte(key), []byte(val)) == nil, "C10/put-ok")
		ses, ln := m.scope()
		m.e = append(m.e, entry{m.typ, ses, ln, key, val})
	}
	m.ses = sessions[v.Choice("session", len(sessions))]
	store.SetSession(m.ses)
	m.lang = langs[v.Choice("language", len(langs))]
	store.SetLanguage(language(m.lang))
	key := Key(v, v.Param("keylen"))
	legacy = v.Or(legacy, typeChar(v, key[0]))
	v.Finding("F9-fs-legacy-file-names", v.And(isFs, legacy))
	got, err := store.Get(ctx, []byte(key))
	ses, ln := m.scope()
	want, have := m.find(m.typ, ses, ln, key)
	if !have && ln != "" {
		want, have = m.find(m.typ, ses, "", key)
		if have {
			v.Cover("C10/language-fallback")
		}
	}
	if have {
		v.Assert(err == nil, "C10/get-finds-the-latest-write")
		v.Assert(string(got) == want, "C10/get-returns-the-latest-write")
		v.Cover("C10/get-hit")
	} else {
		v.Assert(err != nil, "C10/get-of-unwritten-key-fails")
		v.Assert(db.IsNotFound(err), "C10/not-found-is-recognisable")
		v.Cover("C10/get-miss")
	}
}

// DumpFs: the filesystem backend lists exactly the stored keys of the current
// type and session that have the prefix, once each, with their values.
func DumpFs(v *vrt.Ctx) {
	which := v.Param("backend")
	ctx := context.Background()
	store := Open(v, ctx, which)
	typ := []uint8{db.DATATYPE_TEMPLATE, db.DATATYPE_USERDATA}[v.Choice("type", 2)]
	store.SetPrefix(typ)
	if typ&lockable != 0 {
		store.SetLock(typ, false)
	}
	ka, kb := Key(v, 2), Key(v, 2)
	v.Assume(ka != kb)
	v.Finding("F9-fs-legacy-file-names", v.Or(typeChar(v, ka[0]), typeChar(v, kb[0])))
	type kv struct{ k, val string }
	var want []kv
	put := func(ses, ln, key, val string) {
		store.SetSession(ses)
		store.SetLanguage(language(ln))
		v.Assert(store.Put(ctx, []byte(key), []byte(val)) == nil, "C10/put-ok")
	}
	mine := ""
	if typ == db.DATATYPE_USERDATA {
		mine = "s1"
		if v.Bool("other-session-has-data") {
			// a session that sorts before the listing one, or after it
			put([]string{"s0", "s2"}[v.Choice("other-session", 2)], "", ka, "X")
		}
	}
	hasA, hasB := v.Bool("key-a-stored"), v.Bool("key-b-stored")
	hasTr := typ == db.DATATYPE_TEMPLATE && v.Bool("key-a-translated")
	v.Finding("F18-fs-dump-with-translations", hasTr)
	if hasA {
		put(mine, "", ka, "A")
	}
	if hasTr {
		put(mine, "nor", ka, "T")
	}
	if hasB {
		put(mine, "", kb, "B")
	}
	store.SetSession(mine)
	store.SetLanguage(nil)
	pfx := ""
	if v.Bool("dump-with-prefix") {
		pfx = ka[:1]
	}
	if hasA {
		want = append(want, kv{ka, "A"})
	}
	if hasB && kb[:len(pfx)] == pfx {
		want = append(want, kv{kb, "B"})
	}
	d, err := store.Dump(ctx, []byte(pfx))
	if len(want) == 0 && !hasTr {
		v.Assert(err != nil, "C10/dump-of-nothing-is-not-found")
		v.Cover("C10/dump-empty")
		return
	}
	if err != nil {
		v.Assert(len(want) == 0, "C10/dump-ok")
		return
	}
	seen := 0
	for j := 0; j < 4; j++ {
		kk, vv := d.Next(ctx)
		if kk == nil {
			break
		}
		found := false
		for _, w := range want {
			if w.k == string(kk) {
				found = true
				v.Assert(w.val == string(vv), "C10/dump-lists-the-stored-value")
			}
		}
		v.Assert(found, "C10/dump-lists-only-stored-keys-with-the-prefix")
		seen++
	}
	v.Assert(seen == len(want), "C10/dump-lists-every-stored-key-once")
	v.Cover("C10/dump")
}

func translatedPresent(m *model) bool {
	for _, e := range m.e {
		if e.lang != "" {
			return true
		}
	}
	return false
}

// Seal: the data types that are read-only for the VM are written while
// unlocked, then some lock changes are made and the locks are sealed -
// SetLock(0, x) with either value of x, the second argument has no meaning
// for the seal. From then on every one of those types refuses writes, on
// every key, the stored values stay what they were, and no SetLock call
// changes that.
func Seal(v *vrt.Ctx) {
	which := v.Param("backend")
	ctx := context.Background()
	store := Open(v, ctx, which)
	ro := []uint8{db.DATATYPE_BIN, db.DATATYPE_MENU, db.DATATYPE_TEMPLATE, db.DATATYPE_STATICLOAD}
	for _, t := range ro {
		v.Assume(store.SetLock(t, false) == nil)
		store.SetPrefix(t)
		v.Assume(store.Put(ctx, []byte("k"), []byte{'a' + t}) == nil)
	}
	// any lock state before the seal
	for _, t := range ro {
		if v.Bool("locked-before-the-seal") {
			v.Assume(store.SetLock(t, true) == nil)
		}
	}
	v.Assert(store.SetLock(0, v.Bool("seal-argument")) == nil, "C10/setlock-ok")
	t := ro[v.Choice("type", len(ro))]
	if v.Bool("try-to-unlock") {
		v.Assert(store.SetLock(t, false) != nil, "C10/sealed-locks-cannot-be-changed")
	}
	store.SetPrefix(t)
	key := "k"
	if v.Bool("new-key") {
		key = "n"
	}
	v.Assert(store.Put(ctx, []byte(key), []byte("X")) != nil, "C10/locked-write-is-refused")
	got, err := store.Get(ctx, []byte("k"))
	v.Assert(err == nil && len(got) == 1 && got[0] == 'a'+t, "C10/refused-write-changes-nothing")
	if key == "n" {
		_, err = store.Get(ctx, []byte("n"))
		v.Assert(err != nil && db.IsNotFound(err), "C10/refused-write-changes-nothing")
	}
	v.Cover("C10/sealed")
}

var Harnesses = map[string]func(*vrt.Ctx){
	"Seal": Seal,
	"Hist":   Hist,
	"Scoped": Scoped,
	"DumpFs": DumpFs,
}

// Package c13: a storage error on Postgres never wedges the store or loses
// acknowledged writes.
package c13

import (
	"context"

	"git.defalsify.org/vise.git/db"
	"git.defalsify.org/vise.git/db/postgres"
	"vharness/pgfake"
	"vharness/vrt"
)

var keys = []string{"ka", "kb"}

// Faults: K operations with at most F injected driver faults.
func Faults(v *vrt.Ctx) {
	k := v.Param("K")
	budget := v.Param("F")
	ctx := context.Background()
	srv := pgfake.New()
	store := postgres.NewPgDb().WithConnection(srv)
	store.SetPrefix(db.DATATYPE_USERDATA)
	faulted := false
	srv.Fail = func(op string) bool {
		if budget == 0 {
			return false
		}
		if v.Bool("fault-" + op) {
			budget--
			faulted = true
			return true
		}
		return false
	}
	// reference model: committed (acknowledged) and in-transaction writes
	ack := map[string]string{}
	pend := map[string]string{}
	multi := false
	everStopped := false
	for i := 0; i < k; i++ {
		op := v.Choice("op", 5)
		faulted = false
		switch op {
		case 0: // Put
			key := keys[v.Choice("key", 2)]
			val := string([]byte{byte('0' + i)})
			err := store.Put(ctx, []byte(key), []byte(val))
			if faulted {
				v.Assert(err != nil, "C13/failed-step-reports-error")
				if multi {
					// a failed statement aborts the explicit transaction
					multi, everStopped = false, true
					pend = map[string]string{}
				}
			}
			if err == nil {
				if multi {
					pend[key] = val
				} else {
					ack[key] = val
				}
				v.Cover("C13/put-acknowledged")
			}
		case 1: // Get
			key := keys[v.Choice("key", 2)]
			got, err := store.Get(ctx, []byte(key))
			if faulted {
				v.Assert(err != nil, "C13/failed-step-reports-error")
				if multi {
					multi, everStopped = false, true
					pend = map[string]string{}
				}
			} else if multi {
				if err != nil {
					// a Get that finds nothing (or fails) inside an explicit
					// transaction rolls the whole transaction back
					multi, everStopped = false, true
					pend = map[string]string{}
					v.Cover("C13/get-miss-aborts-explicit-transaction")
				}
			} else {
				want, have := ack[key]
				if have {
					v.Assert(err == nil && string(got) == want, "C13/get-returns-acknowledged-write")
				} else {
					v.Assert(err != nil && db.IsNotFound(err), "C13/get-of-missing-key-is-not-found")
				}
			}
		case 2: // Start
			err := store.Start(ctx)
			if faulted {
				v.Assert(err != nil, "C13/failed-step-reports-error")
			}
			if multi {
				v.Assert(err != nil, "C13/start-inside-a-transaction-is-refused")
			} else if err == nil {
				multi = true
				v.Cover("C13/started")
			} else {
				v.Assert(faulted, "C13/start-works-when-no-transaction-is-open")
			}
		case 3: // Stop
			if multi {
				everStopped = true
			}
			err := store.Stop(ctx)
			if faulted {
				v.Assert(err != nil, "C13/failed-step-reports-error")
			}
			if multi {
				if err == nil {
					for key, val := range pend {
						ack[key] = val
					}
					v.Cover("C13/stopped")
				}
				pend = map[string]string{}
				multi = false
			} else {
				v.Assert(err != nil, "C13/stop-without-start-is-refused")
			}
		case 4: // Abort
			if multi {
				everStopped = true
			}
			store.Abort(ctx)
			pend = map[string]string{}
			multi = false
			v.Cover("C13/aborted")
		}
		// F19: the store never leaves multi-operation mode again once an
		// explicit transaction has ended (pinned by TestPostgresTxStartStop)
		v.Finding("F19-after-an-explicit-transaction-ended", everStopped)
		// transaction hygiene after every operation
		if !multi {
			v.Assert(srv.OpenTxs() == 0, "C13/no-transaction-left-open")
		} else {
			v.Assert(srv.OpenTxs() <= 1, "C13/no-transaction-left-open")
		}
		for _, t := range srv.Txs {
			v.Assert(!t.UsedAfter, "C13/transaction-used-after-its-end")
			if t.Ended {
				v.Assert(t.Committed+t.RolledBack == 1, "C13/transaction-ended-exactly-once")
			}
		}
	}
	if v.Param("close") == 1 && v.Choice("ending", 2) == 1 {
		// the history ends with Close while faults are still possible: Close
		// commits what an explicit transaction holds, and a commit that fails
		// is reported, its writes are not there afterwards
		faulted = false
		wasMulti := multi
		err := store.Close(ctx)
		if faulted {
			v.Assert(err != nil, "C13/failed-step-reports-error")
		}
		if wasMulti {
			everStopped = true
			if err == nil {
				for key, val := range pend {
					ack[key] = val
				}
				v.Cover("C13/closed-with-a-transaction-pending")
			} else {
				v.Cover("C13/close-reported-the-failed-commit")
			}
		}
		budget = 0
		v.Finding("F19-after-an-explicit-transaction-ended", everStopped)
		v.Assert(srv.OpenTxs() == 0, "C13/no-transaction-left-open")
		for _, t := range srv.Txs {
			v.Assert(!t.UsedAfter, "C13/transaction-used-after-its-end")
			if t.Ended {
				v.Assert(t.Committed+t.RolledBack == 1, "C13/transaction-ended-exactly-once")
			}
		}
		fresh := postgres.NewPgDb().WithConnection(srv)
		fresh.SetPrefix(db.DATATYPE_USERDATA)
		for _, key := range keys {
			got, err := fresh.Get(ctx, []byte(key))
			want, have := ack[key]
			if have {
				v.Assert(err == nil && string(got) == want, "C13/acknowledged-writes-survive")
			} else {
				v.Assert(err != nil && db.IsNotFound(err), "C13/unacknowledged-writes-are-absent")
			}
		}
		v.Cover("C13/history-done")
		return
	}
	// once the faults are gone the store works and returns exactly the
	// acknowledged writes
	budget = 0
	if multi {
		store.Abort(ctx)
		everStopped = true
	}
	v.Finding("F19-after-an-explicit-transaction-ended", everStopped)
	for _, key := range keys {
		got, err := store.Get(ctx, []byte(key))
		want, have := ack[key]
		if have {
			v.Assert(err == nil && string(got) == want, "C13/acknowledged-writes-survive")
		} else {
			v.Assert(err != nil && db.IsNotFound(err), "C13/unacknowledged-writes-are-absent")
		}
	}
	v.Assert(store.Put(ctx, []byte("kc"), []byte("z")) == nil, "C13/store-usable-after-faults")
	got, err := store.Get(ctx, []byte("kc"))
	v.Assert(err == nil && string(got) == "z", "C13/store-usable-after-faults")
	v.Assert(srv.OpenTxs() == 0, "C13/no-transaction-left-open")
	v.Cover("C13/history-done")
}

// StopFault: an explicit transaction whose commit fails at Stop (or whose
// statement fails before). The failed operation reports the error, the
// transaction is ended exactly once and is not used again, and with the fault
// gone a new explicit transaction can be started at once, its writes become
// visible at Stop, those of the failed one never. (Only explicit
// transactions are used after the first one ended, so the single-operation
// mode of finding F19 plays no part here.)
func StopFault(v *vrt.Ctx) {
	ctx := context.Background()
	srv := pgfake.New()
	store := postgres.NewPgDb().WithConnection(srv)
	store.SetPrefix(db.DATATYPE_USERDATA)
	budget := 1
	faulted := false
	srv.Fail = func(op string) bool {
		if budget > 0 && v.Bool("fault-"+op) {
			budget--
			faulted = true
			return true
		}
		return false
	}
	v.Assume(store.Start(ctx) == nil)
	perr := store.Put(ctx, []byte("ka"), []byte("1"))
	serr := store.Stop(ctx)
	v.Assume(faulted)
	v.Assert(perr != nil || serr != nil, "C13/failed-step-reports-error")
	budget = 0
	check := func() {
		v.Assert(srv.OpenTxs() <= 1, "C13/no-transaction-left-open")
		for _, t := range srv.Txs {
			v.Assert(!t.UsedAfter, "C13/transaction-used-after-its-end")
			if t.Ended {
				v.Assert(t.Committed+t.RolledBack == 1, "C13/transaction-ended-exactly-once")
			}
		}
	}
	check()
	if perr != nil {
		// the statement failed: the transaction is over (rolled back by the
		// operation that failed); Stop had nothing to commit
		v.Cover("C13/stopfault-statement")
	} else {
		v.Cover("C13/stopfault-commit")
	}
	v.Assert(srv.OpenTxs() == 0, "C13/no-transaction-left-open")
	// the store is not wedged: a new explicit transaction starts at once
	v.Assert(store.Start(ctx) == nil, "C13/start-works-when-no-transaction-is-open")
	v.Assert(store.Put(ctx, []byte("kb"), []byte("2")) == nil, "C13/store-usable-after-faults")
	v.Assert(store.Stop(ctx) == nil, "C13/store-usable-after-faults")
	check()
	v.Assert(srv.OpenTxs() == 0, "C13/no-transaction-left-open")
	// what is committed is exactly the second transaction's write
	fresh := postgres.NewPgDb().WithConnection(srv)
	fresh.SetPrefix(db.DATATYPE_USERDATA)
	_, gerr := fresh.Get(ctx, []byte("ka"))
	v.Assert(gerr != nil && db.IsNotFound(gerr), "C13/unacknowledged-writes-are-absent")
	val, gerr := fresh.Get(ctx, []byte("kb"))
	v.Assert(gerr == nil && string(val) == "2", "C13/acknowledged-writes-survive")
	v.Cover("C13/stopfault-done")
}

var Harnesses = map[string]func(*vrt.Ctx){
	"StopFault": StopFault,
	"Faults": Faults,
}

// Package c05: loaded symbols live exactly as long as their stack level.
package c05

import (
	"context"

	"git.defalsify.org/vise.git/cache"
	"git.defalsify.org/vise.git/render"
	"git.defalsify.org/vise.git/resource"
	"git.defalsify.org/vise.git/state"
	"git.defalsify.org/vise.git/vm"
	"vharness/app"
	"vharness/vrt"
)

const maxLen = 70000

var nodes = []string{"root", "sub", "deep"}

// world: a VM at depth d (1..3) over an application whose function "f"
// returns, at its n-th call, an uninterpreted value of symbolic length.
type world struct {
	v     *vrt.Ctx
	rs    *app.Res
	st    *state.State
	ca    *cache.Cache
	vmi   *vm.Vm
	ctx   context.Context
	calls int
	last  string
	all   []string // every result, in call order
}

func newWorld(v *vrt.Ctx, depth int, outSize uint32) *world {
	w := &world{v: v, rs: app.NewRes(), st: state.NewState(8), ca: cache.NewCache(), ctx: context.Background()}
	w.rs.Funcs["f"] = func(ctx context.Context, sym string, input []byte) (resource.Result, error) {
		w.calls++
		w.last = v.Opaque("result", byte('a'+w.calls), 0, maxLen)
		w.all = append(w.all, w.last)
		return resource.Result{Content: w.last}, nil
	}
	for _, n := range nodes {
		w.rs.Node(n, n+" {{.f}}", app.Code().Halt().Bytes())
	}
	w.rs.Node("plain", "plain", app.Code().Halt().Bytes())
	w.rs.Node("other", "other {{.f}}", app.Code().Halt().Bytes())
	w.rs.Node("_catch", "catch", app.Code().Halt().Bytes())
	for i := 0; i < depth; i++ {
		w.st.Down(nodes[i])
		w.ca.Push()
	}
	w.vmi = vm.NewVm(w.st, w.rs, w.ca, render.NewSizer(outSize))
	return w
}

func (w *world) run(code []byte) error {
	_, err := w.vmi.Run(w.ctx, code)
	return err
}

func sizeBytes(sz uint32) []byte { return []byte{byte(sz >> 24), byte(sz >> 16), byte(sz >> 8), byte(sz)} }

func loadLine(sz uint32) []byte {
	return vm.NewLine(nil, vm.LOAD, []string{"f"}, sizeBytes(sz), nil)
}

// Load: LOAD with the symbol visible from some level, or absent.
func Load(v *vrt.Ctx) {
	depth := 1 + v.Choice("depth", 3)
	w := newWorld(v, depth, 0)
	// pre-state: symbol already present at level 1..depth (frame index), or absent
	at := v.Choice("present-at", depth+1) // 0 = absent
	var old string
	if at > 0 {
		old = v.Opaque("old", 'o', 0, maxLen)
		w.ca.Cache[at]["f"] = old
		w.ca.Sizes["f"] = 0
		w.ca.CacheUseSize = uint32(len(old))
	}
	sz := v.U32("declared-size")
	v.Assume(sz <= 65535)
	err := w.run(append(loadLine(sz), app.Code().Halt().Bytes()...))
	v.Observe("err", err)
	if at > 0 {
		v.Assert(err == nil, "C05/load-of-visible-symbol-ok")
		v.Assert(w.calls == 0, "C05/visible-symbol-is-not-loaded-again")
		got, gerr := w.ca.Get("f")
		v.Assert(v.And(gerr == nil, got == old), "C05/visible-symbol-keeps-its-value")
		v.Cover("C05/load-skipped")
		return
	}
	v.Assert(w.calls == 1, "C05/load-calls-the-function-once")
	v.Finding("F3-length-over-65535", len(w.last) > 65535)
	fits := v.Or(sz == 0, len(w.last) <= int(sz))
	got, gerr := w.ca.Get("f")
	if gerr == nil {
		v.Assert(fits, "C05/oversized-result-was-stored")
		v.Assert(got == w.last, "C05/load-stores-the-result")
		_, here := w.ca.Cache[depth]["f"]
		v.Assert(here, "C05/load-stores-at-the-current-level")
		v.Assert(err == nil, "C05/load-ok")
		v.Cover("C05/load-stored")
	} else {
		v.Assert(!fits, "C05/fitting-result-was-not-stored")
		v.Assert(err != nil, "C05/oversized-result-reports-error")
		v.Cover("C05/load-oversized")
	}
}

// Lifetime: load at level L, look from deeper levels, ascend above L (by
// MOVE _, INCMP _, CATCH _ or MOVE ^), come back: loaded afresh.
func Lifetime(v *vrt.Ctx) {
	depth := 1 + v.Choice("depth", 2) // load level 1..2
	w := newWorld(v, depth, 0)
	v.Assume(w.run(append(loadLine(0), app.Code().Halt().Bytes()...)) == nil)
	first := w.last
	v.Assert(w.calls == 1, "C05/load-calls-the-function-once")
	// descend one or two levels: still readable, no new call
	down := 1 + v.Choice("descend", 2)
	for i := 0; i < down; i++ {
		v.Assume(w.run(app.Code().Move([]string{"plain", "other"}[i]).Bytes()) == nil)
		got, err := w.ca.Get("f")
		v.Assert(v.And(err == nil, got == first), "C05/readable-from-deeper-levels")
	}
	v.Assume(w.run(append(loadLine(0), app.Code().Halt().Bytes()...)) == nil)
	v.Assert(w.calls == 1, "C05/visible-symbol-is-not-loaded-again")
	// ascend back to the load level: still there. From below the entry node
	// the way back may also be the rewind '^' (it ascends to the entry node,
	// not above it)
	if depth == 1 && v.Choice("back-by-rewind", 2) == 1 {
		v.Assume(w.run(app.Code().Move("^").Bytes()) == nil)
		v.Cover("C05/rewind-to-the-load-level")
	} else {
		for i := 0; i < down; i++ {
			v.Assume(w.run(app.Code().Move("_").Bytes()) == nil)
		}
	}
	got, err := w.ca.Get("f")
	v.Assert(v.And(err == nil, got == first), "C05/still-there-at-the-load-level")
	v.Assume(w.run(append(loadLine(0), app.Code().Halt().Bytes()...)) == nil)
	v.Assert(w.calls == 1, "C05/visible-symbol-is-not-loaded-again")
	if depth == 1 {
		v.Cover("C05/lifetime-entry-node")
		return // cannot ascend above the entry node
	}
	// ascend above the load level
	switch v.Choice("ascend-by", 4) {
	case 0:
		v.Assume(w.run(app.Code().Move("_").Bytes()) == nil)
	case 1:
		w.st.SetInput([]byte("0"))
		v.Assume(w.run(app.Code().InCmp("_", "0").Bytes()) == nil)
	case 2:
		v.Assume(w.run(app.Code().Catch("_", 8, false).Bytes()) == nil)
	case 3:
		v.Assume(w.run(app.Code().Move("^").Bytes()) == nil)
	}
	_, err = w.ca.Get("f")
	v.Assert(err != nil, "C05/gone-above-the-load-level")
	// come back to the node: loaded afresh
	v.Assume(w.run(app.Code().Move(nodes[depth-1]).Bytes()) == nil)
	v.Assume(w.run(append(loadLine(0), app.Code().Halt().Bytes()...)) == nil)
	v.Assert(w.calls == 2, "C05/reentry-loads-afresh")
	got, err = w.ca.Get("f")
	v.Assert(v.And(err == nil, got == w.last), "C05/reentry-loads-afresh")
	v.Cover("C05/lifetime-reloaded")
}

// Reload: RELOAD re-runs the function and replaces the value (also with an
// empty result) under the limit declared at LOAD; an over-limit result is
// neither stored nor shown.
func Reload(v *vrt.Ctx) {
	w := newWorld(v, 1, 0)
	sz := v.U32("declared-size")
	v.Assume(sz <= 65535)
	var err error
	page := "root "
	deeper := false
	switch v.Choice("reload-shape", 4) {
	case 3: // LOAD, stop, descend, RELOAD from one level below the symbol's own
		v.Assume(w.run(append(loadLine(sz), app.Code().Halt().Bytes()...)) == nil)
		err = w.run(app.Code().Move("other").Reload("f").Halt().Bytes())
		page, deeper = "other ", true
	case 0: // LOAD, stop, RELOAD
		v.Assume(w.run(append(loadLine(sz), app.Code().Halt().Bytes()...)) == nil)
		err = w.run(app.Code().Reload("f").Halt().Bytes())
	case 1: // LOAD and MAP, stop, RELOAD
		v.Assume(w.run(append(loadLine(sz), app.Code().Map("f").Halt().Bytes()...)) == nil)
		err = w.run(app.Code().Reload("f").Halt().Bytes())
	case 2: // LOAD, MAP and RELOAD in one run: the page must show the reloaded value
		err = w.run(append(loadLine(sz), app.Code().Map("f").Reload("f").Halt().Bytes()...))
		v.Assume(len(w.all) >= 1 && (sz == 0 || len(w.all[0]) <= int(sz)))
	}
	v.Assert(w.calls == 2, "C05/reload-calls-the-function-once")
	first := w.all[0]
	second := w.last
	v.Finding("F3-length-over-65535", len(second) > 65535)
	v.Finding("F4-update-to-empty", len(second) == 0)
	fits := v.Or(sz == 0, len(second) <= int(sz))
	got, gerr := w.ca.Get("f")
	v.Assert(gerr == nil, "C05/reload-keeps-the-symbol")
	out, rerr := w.vmi.Render(w.ctx)
	if fits {
		v.Assert(err == nil, "C05/reload-ok")
		v.Assert(got == second, "C05/reload-replaces-the-value")
		if sz != 0 {
			v.Assert(v.And(rerr == nil, out == page+second), "C05/reload-shows-the-new-value")
		}
		if deeper {
			// the value was replaced where the symbol lives: back at the load
			// level it is still there, once
			v.Assert(w.run(app.Code().Move("_").Bytes()) == nil, "C05/reload-ok")
			got, gerr = w.ca.Get("f")
			v.Assert(v.And(gerr == nil, got == second), "C05/reload-from-below-replaces-at-the-load-level")
			n := 0
			for _, fr := range w.ca.Cache {
				if _, ok := fr["f"]; ok {
					n++
				}
			}
			v.Assert(n == 1, "C05/reload-from-below-replaces-at-the-load-level")
			v.Cover("C05/reload-from-below")
		}
		v.Cover("C05/reload-replaced")
	} else {
		v.Assert(got == first, "C05/oversized-reload-result-was-stored")
		if rerr == nil {
			v.Assert(out == page+first, "C05/oversized-reload-result-was-shown")
		}
		v.Cover("C05/reload-oversized")
	}
}

// MapScope: MAP exposes a value to the template only until the next move,
// whichever instruction makes the move.
func MapScope(v *vrt.Ctx) {
	how := v.Choice("moved-by", 4) // 3: no move at all, execution resumes after the HALT and stops again
	outSize := uint32(0)
	if how == 3 {
		outSize = 200 // a sink needs an output size
	}
	w := newWorld(v, 1, outSize)
	sameRun := v.Choice("move-in-the-same-run", 2) == 1
	if how == 3 {
		v.Assume(!sameRun)
	}
	v.Finding("F20-catch-move-keeps-mapping", v.And(how == 2, sameRun))
	var mv []byte
	switch how {
	case 0:
		mv = app.Code().Move("other").Bytes()
	case 1:
		w.st.SetInput([]byte("1"))
		mv = app.Code().InCmp("other", "1").Bytes()
	case 2:
		mv = app.Code().Catch("other", 8, false).Bytes()
	case 3:
		w.st.SetInput([]byte("1"))
		w.rs.Funcs["g"] = app.Static("second")
		mv = app.Code().Load("g", 0).Map("g").Halt().Bytes()
	}
	first := append(loadLine(100), app.Code().Map("f").Bytes()...)
	if how == 3 {
		// both symbols are sinks (declared size 0): a page has room for one
		first = append(loadLine(0), app.Code().Map("f").Bytes()...)
	}
	if sameRun {
		v.Assume(w.run(append(first, mv...)) == nil)
	} else {
		v.Assume(w.run(append(first, app.Code().Halt().Bytes()...)) == nil)
		if how == 3 {
			v.Assume(len(w.last) > 0 && len(w.last) < 100)
		}
		out, err := w.vmi.Render(w.ctx)
		v.Assert(v.And(err == nil, out == "root "+w.last), "C05/map-exposes-the-value")
		if how == 3 {
			// mappings are dropped on resume as well: the code after the HALT
			// starts with a page that exposes nothing, so it can map another
			// sink symbol and the page shows that one only
			w.rs.Nodes["root"].Tpl = "root {{.g}}"
			v.Assert(w.run(mv) == nil, "C05/mapping-ends-on-resume")
			out, err := w.vmi.Render(w.ctx)
			v.Assert(v.And(err == nil, out == "root second"), "C05/mapping-ends-on-resume")
			v.Cover("C05/mapscope-resume")
			return
		}
		v.Assume(w.run(mv) == nil)
	}
	v.Assume(len(w.st.ExecPath) == 2)
	// the symbol is still in the cache (loaded one level up), but no longer mapped
	_, gerr := w.ca.Get("f")
	v.Assert(gerr == nil, "C05/readable-from-deeper-levels")
	_, err := w.vmi.Render(w.ctx)
	v.Assert(err != nil, "C05/mapping-ends-at-the-next-move")
	v.Cover("C05/mapscope")
}

var Harnesses = map[string]func(*vrt.Ctx){
	"Load":     Load,
	"Lifetime": Lifetime,
	"Reload":   Reload,
	"MapScope": MapScope,
}

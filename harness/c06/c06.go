package c06

import (
	"git.defalsify.org/vise.git/state"
	"vharness/vrt"
)

// Writeable: for every 32-bit flag index, external code may write exactly the
// flags above the reserved range (TERMINATE=6, LANG=7, client flags 8..).
func Writeable(v *vrt.Ctx) {
	f := v.U32("flag")
	w := state.IsWriteableFlag(f)
	v.Observe("writeable", w)
	v.Assert(w == (f >= 6), "C06/writeable-iff-ge-6")
	if w {
		v.Cover("C06/writeable")
	} else {
		v.Cover("C06/reserved")
	}
}

var Harnesses = map[string]func(*vrt.Ctx){
	"Writeable": Writeable,
}

// Package c06: signal flags steer control flow and the reserved ones are
// tamper-proof.
package c06

import (
	"context"

	"git.defalsify.org/vise.git/cache"
	"git.defalsify.org/vise.git/engine"
	"git.defalsify.org/vise.git/render"
	"git.defalsify.org/vise.git/resource"
	"git.defalsify.org/vise.git/state"
	"git.defalsify.org/vise.git/vm"
	"vharness/app"
	"vharness/vrt"
)

// Writeable: for every 32-bit flag index, external code may write exactly the
// flags above the reserved range (TERMINATE=6, LANG=7, client flags 8..).
func Writeable(v *vrt.Ctx) {
	f := v.U32("flag")
	w := state.IsWriteableFlag(f)
	v.Observe("writeable", w)
	v.Assert(w == (f >= 6), "C06/writeable-iff-ge-6")
	if w {
		v.Cover("C06/writeable")
	} else {
		v.Cover("C06/reserved")
	}
}

// flagCount: the configured number of client flags. FCmode 0: {0, 9, 16};
// FCmode 1: every count 0..16.
func flagCount(v *vrt.Ctx) uint32 {
	if v.Param("FCmode") == 0 {
		return []uint32{0, 9, 16}[v.Choice("flagcount", 3)]
	}
	return uint32(v.Choice("flagcount", 17))
}

func bit(flags []byte, i uint32) bool { return flags[i/8]&(1<<(i%8)) != 0 }

// newState: a state with FlagCount client flags and symbolic flag bytes.
// TERMINATE is clear (the blocked case is the Terminate harness).
func newState(v *vrt.Ctx, flagCount uint32) *state.State {
	st := state.NewState(flagCount)
	fb := v.Bytes("flags", len(st.Flags))
	copy(st.Flags, fb)
	v.Assume(st.Flags[0]&(1<<state.FLAG_TERMINATE) == 0)
	st.Down("root")
	return st
}

// Refresh: an external function asks to set flag x and reset flag y (any
// indices inside the configured size, reserved ones included). Compared with
// the same run with empty lists: the built-in flags 0..5 are identical, and
// writeable flags (6 and up) are set/reset as asked.
func Refresh(v *vrt.Ctx) {
	fc := flagCount(v)
	nset, nreset := v.Param("nset"), v.Param("nreset")
	var xs, ys []uint32
	for i := 0; i < nset; i++ {
		x := v.U32("set")
		v.Assume(x < fc+8)
		xs = append(xs, x)
	}
	for i := 0; i < nreset; i++ {
		y := v.U32("reset")
		v.Assume(y < fc+8)
		ys = append(ys, y)
	}
	run := func(st *state.State, set, reset []uint32) {
		rs := app.NewRes()
		rs.Funcs["f"] = func(ctx context.Context, sym string, input []byte) (resource.Result, error) {
			return resource.Result{Content: "", FlagSet: set, FlagReset: reset}, nil
		}
		ca := cache.NewCache()
		ca.Push()
		vmi := vm.NewVm(st, rs, ca, render.NewSizer(0))
		_, err := vmi.Run(context.Background(), app.Code().Load("f", 0).Halt().Bytes())
		v.Assert(err == nil, "C06/refresh-run-ok")
	}
	a := newState(v, fc)
	b := state.NewState(fc)
	copy(b.Flags, a.Flags)
	b.Down("root")
	run(a, xs, ys)
	run(b, nil, nil)
	// expected flag bytes: those of the run without requests, with every
	// writeable reset and then every writeable set applied (selection without
	// forks); the lists are applied whole, whatever reserved indices they hold
	terminate := false
	anyReserved := false
	for _, x := range xs {
		terminate = v.Or(terminate, x == state.FLAG_TERMINATE)
		anyReserved = v.Or(anyReserved, x < 6)
	}
	for _, y := range ys {
		anyReserved = v.Or(anyReserved, y < 6)
	}
	for j := range a.Flags {
		var sm, rm uint8
		for _, x := range xs {
			sm |= v.IteU8(v.And(x/8 == uint32(j), x >= 6), uint8(1)<<(x%8), 0)
		}
		for _, y := range ys {
			rm |= v.IteU8(v.And(y/8 == uint32(j), y >= 6), uint8(1)<<(y%8), 0)
		}
		want := (b.Flags[j] &^ rm) | sm
		got := a.Flags[j]
		if j == 0 {
			// LANG (bit 7) is a signal the VM consumes at the next
			// instruction; TERMINATE (bit 6) stops the run before the HALT,
			// so WAIT legitimately differs when it was requested
			want, got = want&0x7f, got&0x7f
			if terminate {
				v.Assert(got&0x40 != 0, "C06/requested-flag-is-set")
				v.Cover("C06/set-terminate")
				continue
			}
		}
		v.Assert(got == want, "C06/flags-are-exactly-the-writeable-requests")
	}
	if anyReserved {
		v.Cover("C06/set-reserved-ignored")
	} else {
		v.Cover("C06/set-writeable")
	}
}

// loopUntouched: flags the VM loop itself does not write before executing an
// instruction (READIN, LOADFAIL, RESERVED and the client flags).
func loopUntouched(sig uint32) bool {
	return sig == state.FLAG_READIN || sig == state.FLAG_LOADFAIL || sig == state.FLAG_RESERVED || sig >= state.FLAG_USERSTART
}

// Catch: CATCH moves exactly when the flag's state equals the mode, otherwise
// nothing changes.
func Catch(v *vrt.Ctx) {
	fc := flagCount(v)
	st := newState(v, fc)
	sig := v.U32("sig")
	v.Assume(sig < fc+8)
	v.Assume(loopUntouched(sig))
	mode := v.Bool("mode")
	was := bit(st.Flags, sig)
	rs := app.NewRes()
	rs.Node("root", "root", app.Code().Halt().Bytes())
	rs.Node("other", "other", app.Code().Halt().Bytes())
	ca := cache.NewCache()
	ca.Push()
	vmi := vm.NewVm(st, rs, ca, render.NewSizer(0))
	// the target is a node, or the navigation symbol for "stay here" (the
	// input-validation idiom CATCH . <flag> <mode>)
	tgt := []string{"other", "."}[v.Choice("catch-target", 2)]
	rest, err := vmi.Run(context.Background(), app.Code().Catch(tgt, sig, mode).Halt().Bytes())
	v.Assert(err == nil, "C06/catch-run-ok")
	if was == mode {
		if tgt == "." {
			v.Assert(len(st.ExecPath) == 1 && st.ExecPath[0] == "root", "C06/catch-moves-when-flag-matches")
			v.Assert(len(rs.Log) > 0, "C06/catch-moves-when-flag-matches") // the node's code was fetched again
		} else {
			v.Assert(len(st.ExecPath) == 2 && st.ExecPath[1] == "other", "C06/catch-moves-when-flag-matches")
		}
		v.Cover("C06/catch-fired")
	} else {
		v.Assert(len(st.ExecPath) == 1 && st.ExecPath[0] == "root", "C06/catch-does-nothing-when-flag-differs")
		v.Assert(int(ca.Levels()) == 2, "C06/catch-does-nothing-when-flag-differs")
		v.Assert(len(rest) == 0, "C06/catch-does-nothing-when-flag-differs")
		v.Assert(len(rs.Log) == 0, "C06/catch-does-nothing-when-flag-differs")
		v.Cover("C06/catch-idle")
	}
	v.Assert(bit(st.Flags, sig) == was, "C06/catch-does-not-write-the-flag")
}

// Croak: under the same test CROAK abandons the pending bytecode: the session
// terminates, or - while input is being handled - goes to the catch node.
func Croak(v *vrt.Ctx) {
	fc := flagCount(v)
	st := newState(v, fc)
	sig := v.U32("sig")
	v.Assume(sig < fc+8)
	v.Assume(sig >= state.FLAG_USERSTART)
	mode := v.Bool("mode")
	was := bit(st.Flags, sig)
	reading := bit(st.Flags, state.FLAG_READIN)
	if reading {
		st.SetInput([]byte("1"))
	}
	rs := app.NewRes()
	rs.Node("other", "other", app.Code().Halt().Bytes())
	rs.Node("_catch", "catch", app.Code().Halt().Bytes())
	ca := cache.NewCache()
	ca.Push()
	vmi := vm.NewVm(st, rs, ca, render.NewSizer(0))
	rest, err := vmi.Run(context.Background(), app.Code().Croak(sig, mode).Move("other").Bytes())
	v.Assert(err == nil, "C06/croak-run-ok")
	top := st.ExecPath[len(st.ExecPath)-1]
	if was != mode {
		v.Assert(top == "other", "C06/croak-does-nothing-when-flag-differs")
		v.Cover("C06/croak-idle")
		return
	}
	v.Assert(top != "other", "C06/croak-abandons-pending-code")
	if reading {
		v.Assert(top == "_catch", "C06/croak-during-input-goes-to-catch")
		v.Cover("C06/croak-to-catch")
	} else {
		v.Assert(bit(st.Flags, state.FLAG_TERMINATE), "C06/croak-terminates")
		v.Assert(len(rest) == 0, "C06/croak-terminates")
		v.Cover("C06/croak-terminates")
	}
}

// Terminate: while TERMINATE is set no instruction runs, no external function
// is called and no position changes, whatever code is pending and whatever
// the input is. One step from an arbitrary blocked state, so it holds for
// every later request until client code clears the flag.
func Terminate(v *vrt.Ctx) {
	fc := flagCount(v)
	st := state.NewState(fc)
	copy(st.Flags, v.Bytes("flags", len(st.Flags)))
	v.Assume(st.Flags[0]&(1<<state.FLAG_TERMINATE) != 0)
	depth := 1 + v.Choice("depth", 2)
	ca := cache.NewCache()
	for _, n := range []string{"root", "sub"}[:depth] {
		st.Down(n)
		ca.Push()
	}
	st.SizeIdx = v.U16("idx")
	before := append([]byte{}, st.Flags...)
	rs := app.NewRes()
	rs.Funcs["f"] = app.Static("x")
	rs.Node("other", "other", app.Code().Halt().Bytes())
	rs.Node("_catch", "catch", app.Code().Halt().Bytes())
	var code []byte
	switch v.Choice("pending", 6) {
	case 0:
		code = app.Code().Load("f", 0).Halt().Bytes()
	case 1:
		code = app.Code().Move("other").Bytes()
	case 2:
		code = app.Code().InCmp("other", "*").Bytes()
	case 3:
		code = app.Code().Catch("other", 8, false).Bytes()
	case 4:
		code = app.Code().Reload("f").Bytes()
	case 5:
		code = v.Bytes("junk", 3)
	}
	in := v.Bytes("input", v.Choice("inputlen", 3))
	st.SetInput(in)
	idx := st.SizeIdx
	engineLevel := v.Choice("through-engine", 2) == 1
	firstRan := 0
	moves := st.Moves
	if engineLevel {
		st.SetCode(code)
		en := engine.NewEngine(engine.Config{Root: "root", FlagCount: fc}, rs).WithState(st).WithMemory(ca)
		if v.Choice("with-first-function", 2) == 1 {
			// a first-function is configured: it must not run either, and
			// the engine's own bookkeeping around it must leave the state alone
			en = en.WithFirst(func(ctx context.Context, sym string, input []byte) (resource.Result, error) {
				firstRan++
				return resource.Result{}, nil
			})
		}
		cont, err := en.Exec(context.Background(), in)
		if len(in) > 0 {
			if _, verr := vm.ValidInput(in); verr != nil {
				v.Assert(err != nil, "C06/terminated-refused-input-is-an-error")
				v.Cover("C06/terminated-refused")
			} else {
				v.Assert(err == nil && !cont, "C06/terminated-engine-reports-stop")
			}
		} else {
			v.Assert(err == nil && !cont, "C06/terminated-engine-reports-stop")
		}
		w := &app.Sink{}
		en.Flush(context.Background(), w)
		v.Assert(w.S == "", "C06/terminated-no-output")
		v.Cover("C06/terminated-engine")
	} else {
		vmi := vm.NewVm(st, rs, ca, render.NewSizer(0))
		rest, err := vmi.Run(context.Background(), code)
		v.Assert(err == nil && len(rest) == 0, "C06/terminated-run-returns-at-once")
		v.Cover("C06/terminated-vm")
	}
	v.Assert(rs.FuncCalls() == 0 && firstRan == 0, "C06/terminated-no-external-call")
	v.Assert(len(st.ExecPath) == depth && st.SizeIdx == idx && st.Moves == moves, "C06/terminated-no-position-change")
	v.Assert(int(ca.Levels()) == depth+1, "C06/terminated-cache-unchanged")
	v.Assert(bit(st.Flags, state.FLAG_TERMINATE), "C06/terminated-stays-set")
	for i := range before {
		if i > 0 {
			v.Assert(st.Flags[i] == before[i], "C06/terminated-client-flags-unchanged")
		}
	}
}

// MidRun: an external function sets TERMINATE in the middle of a run (its
// FlagSet list is symbolic, TERMINATE among the candidates): nothing that
// follows in the same pending code may have an effect - no further external
// call, no move, no client flag change.
func MidRun(v *vrt.Ctx) {
	st := state.NewState(8)
	ca := cache.NewCache()
	st.Down("root")
	ca.Push()
	rs := app.NewRes()
	sets := v.U32("set-flag")
	v.Assume(sets < uint32(len(st.Flags))*8)
	rs.Funcs["quit"] = func(ctx context.Context, sym string, input []byte) (resource.Result, error) {
		return resource.Result{Content: "q", FlagSet: []uint32{sets}}, nil
	}
	rs.Funcs["f"] = func(ctx context.Context, sym string, input []byte) (resource.Result, error) {
		return resource.Result{Content: "x", FlagSet: []uint32{9}}, nil
	}
	// a different target per position (descending into the node one is at
	// is a documented panic, not the subject here)
	rs.Node("other0", "other", app.Code().Bytes())
	rs.Node("other1", "other", app.Code().Bytes())
	rs.Node("_catch", "catch", app.Code().Halt().Bytes())
	code := app.Code().Load("quit", 4)
	n := 1 + v.Choice("following", 2)
	for i := 0; i < n; i++ {
		switch v.Choice("then", 5) {
		case 0:
			code.Load("f", 4)
		case 1:
			code.Move([]string{"other0", "other1"}[i])
		case 2:
			code.Catch([]string{"other0", "other1"}[i], 8, false)
		case 3:
			code.InCmp([]string{"other0", "other1"}[i], "*")
		case 4:
			code.MOut("x", "1")
		}
	}
	st.SetInput([]byte("1"))
	vmi := vm.NewVm(st, rs, ca, render.NewSizer(0))
	_, err := vmi.Run(context.Background(), code.Halt().Bytes())
	v.Observe("err", err)
	if sets != state.FLAG_TERMINATE {
		v.Cover("C06/midrun-not-terminated")
		return
	}
	v.Assert(err == nil, "C06/midrun-run-ok")
	v.Assert(bit(st.Flags, state.FLAG_TERMINATE), "C06/midrun-terminate-set")
	v.Assert(rs.CallsOf("f") == 0, "C06/midrun-no-external-call-after-terminate")
	v.Assert(len(st.ExecPath) == 1 && st.ExecPath[0] == "root", "C06/midrun-no-position-change-after-terminate")
	v.Assert(!bit(st.Flags, 9), "C06/midrun-no-flag-change-after-terminate")
	v.Cover("C06/midrun-terminated")
}

// CroakAfterMatch: the client's input has been matched by an INCMP (by its
// selector or by the wildcard) and so is no longer "being handled": a CROAK
// that fires in the node moved to terminates the session, it does not go to
// the catch node with that input reported as invalid.
func CroakAfterMatch(v *vrt.Ctx) {
	st := state.NewState(8)
	ca := cache.NewCache()
	st.Down("root")
	ca.Push()
	sig := 8 + uint32(v.Choice("sig", 8))
	mode := v.Bool("mode")
	if mode {
		st.SetFlag(sig)
	}
	rs := app.NewRes()
	rs.Node("croaker", "croaker", app.Code().Croak(sig, mode).Move("other").Bytes())
	rs.Node("other", "other", app.Code().Halt().Bytes())
	rs.Node("_catch", "catch", app.Code().Halt().Bytes())
	code := app.Code()
	if v.Choice("after-a-line-that-does-not-match", 2) == 1 {
		code.InCmp("other", "9")
	}
	code.InCmp("croaker", []string{"1", "*"}[v.Choice("matched-by", 2)])
	if v.Choice("followed-by-a-catch-all", 2) == 1 {
		code.InCmp("other", "*")
	}
	st.SetInput([]byte("1"))
	st.SetFlag(state.FLAG_READIN)
	vmi := vm.NewVm(st, rs, ca, render.NewSizer(0))
	rest, err := vmi.Run(context.Background(), code.Bytes())
	v.Assert(err == nil, "C06/croak-run-ok")
	top := st.ExecPath[len(st.ExecPath)-1]
	v.Assert(top == "croaker", "C06/croak-after-a-match-does-not-go-to-catch")
	v.Assert(bit(st.Flags, state.FLAG_TERMINATE), "C06/croak-after-a-match-terminates")
	v.Assert(len(rest) == 0, "C06/croak-after-a-match-terminates")
	v.Cover("C06/croak-after-match")
}

// CroakAfterFailedPrevious: the input selects 'previous' on the first page.
// That move fails and counts as no match, so the input is still being
// handled when a CROAK fires (or the code runs out) right after it: the
// session goes to the catch node and is not terminated.
func CroakAfterFailedPrevious(v *vrt.Ctx) {
	st := state.NewState(8)
	ca := cache.NewCache()
	st.Down("root")
	ca.Push()
	sig := 8 + uint32(v.Choice("sig", 8))
	mode := v.Bool("mode")
	if mode {
		st.SetFlag(sig)
	}
	rs := app.NewRes()
	rs.Node("root", "root", app.Code().Halt().Bytes())
	rs.Node("_catch", "catch", app.Code().Halt().Bytes())
	code := app.Code().InCmp("<", []string{"1", "*"}[v.Choice("matched-by", 2)])
	if v.Choice("then-a-croak", 2) == 1 {
		code.Croak(sig, mode)
	}
	st.SetInput([]byte("1"))
	st.SetFlag(state.FLAG_READIN)
	vmi := vm.NewVm(st, rs, ca, render.NewSizer(0))
	_, err := vmi.Run(context.Background(), code.Bytes())
	v.Assert(err == nil, "C06/croak-run-ok")
	top := st.ExecPath[len(st.ExecPath)-1]
	v.Assert(top == "_catch", "C06/croak-while-input-is-unresolved-goes-to-catch")
	v.Assert(!bit(st.Flags, state.FLAG_TERMINATE), "C06/croak-while-input-is-unresolved-goes-to-catch")
	v.Cover("C06/croak-after-failed-previous")
}

var Harnesses = map[string]func(*vrt.Ctx){
	"CroakAfterFailedPrevious": CroakAfterFailedPrevious,
	"CroakAfterMatch":          CroakAfterMatch,
	"MidRun":                   MidRun,
	"Writeable":                Writeable,
	"Refresh":                  Refresh,
	"Catch":                    Catch,
	"Croak":                    Croak,
	"Terminate":                Terminate,
}

// Package c11: sessions and data types never see each other's stored data.
package c11

import (
	"context"

	"git.defalsify.org/vise.git/cache"
	"git.defalsify.org/vise.git/db"
	"git.defalsify.org/vise.git/persist"
	"git.defalsify.org/vise.git/state"
	"vharness/c10"
	"vharness/pgfake"
	"vharness/vrt"
)

var types = []uint8{db.DATATYPE_BIN, db.DATATYPE_MENU, db.DATATYPE_TEMPLATE, db.DATATYPE_STATICLOAD, db.DATATYPE_STATE, db.DATATYPE_USERDATA}

const sessioned = db.DATATYPE_STATE | db.DATATYPE_USERDATA

func has(v *vrt.Ctx, s string, c byte) bool {
	r := false
	for i := 0; i < len(s); i++ {
		r = v.Or(r, s[i] == c)
	}
	return r
}

// classes marks the input classes of finding F9.
func classes(v *vrt.Ctx, which int, listing bool, t1, t2 uint8, s1, s2, k1, k2 string) {
	// F9 (separator): the storage key is session + "." + key with nothing
	// escaped, so names with a dot in them can collide
	dots := v.Or(v.Or(has(v, s1, '.'), has(v, s2, '.')), v.Or(has(v, k1, '.'), has(v, k2, '.')))
	if listing {
		// a listing without session id has no prefix to stop at: it runs over
		// the records of every session ("" + "a.b" = "a" + "b", seen from the
		// listing side)
		dots = v.Or(dots, (len(s1) == 0) != (len(s2) == 0))
	}
	v.Finding("F9-dot-separator-collision", dots)
	if which == 1 || which == 2 {
		slashes := v.Or(v.Or(has(v, s1, '/'), has(v, s2, '/')), v.Or(has(v, k1, '/'), has(v, k2, '/')))
		v.Finding("F9-fs-path-separator-in-name", slashes)
		first := func(s string) bool {
			if len(s) == 0 {
				return false
			}
			c := s[0]
			return v.Or(v.Or(c == '1', c == '2'), v.Or(v.Or(c == '4', c == '8'), v.Or(c == 'P', c == '@')))
		}
		// F9 (legacy names): a read falls back to the file named by the
		// storage key without its type character, i.e. "<session>.<key>" for
		// the sessioned types and the key itself for the others; only a name
		// that begins with a type character there can be another record's
		legacy := func(t uint8, s, k string) bool {
			if t&sessioned == 0 {
				return first(k)
			}
			if len(s) == 0 {
				return first(k)
			}
			return first(s)
		}
		v.Finding("F9-fs-legacy-file-names", v.Or(legacy(t1, s1, k1), legacy(t2, s2, k2)))
	}
}

// Inject: two (type, session id, key) triples with arbitrary session and key
// bytes; a record written under one is never returned for, or overwritten
// through, the other unless they are the same logical key.
func Inject(v *vrt.Ctx) {
	which := v.Param("backend")
	maxlen := v.Param("maxlen")
	ctx := context.Background()
	store := c10.Open(v, ctx, which)
	t1 := types[v.Choice("type-one", len(types))]
	t2 := types[v.Choice("type-two", len(types))]
	s1 := v.Str("session-one", v.Choice("sessionlen-one", maxlen+1))
	s2 := v.Str("session-two", v.Choice("sessionlen-two", maxlen+1))
	k1 := v.Str("key-one", 1+v.Choice("keylen-one", maxlen))
	k2 := v.Str("key-two", 1+v.Choice("keylen-two", maxlen))
	for _, t := range []uint8{t1, t2} {
		if t&sessioned == 0 {
			store.SetLock(t, false)
		}
	}
	classes(v, which, false, t1, t2, s1, s2, k1, k2)
	same := t1 == t2 && k1 == k2
	if same && t1&sessioned != 0 {
		same = s1 == s2
	}
	store.SetPrefix(t1)
	store.SetSession(s1)
	v.Assume(store.Put(ctx, []byte(k1), []byte("A")) == nil)
	// read through the second triple
	store.SetPrefix(t2)
	store.SetSession(s2)
	got, err := store.Get(ctx, []byte(k2))
	if same {
		v.Assert(err == nil && string(got) == "A", "C11/same-key-reads-back")
		v.Cover("C11/same")
		return
	}
	v.Assert(err != nil, "C11/other-triple-reads-nothing")
	v.Cover("C11/different")
	// write through the second triple: the first record must survive
	if store.Put(ctx, []byte(k2), []byte("B")) != nil {
		return
	}
	store.SetPrefix(t1)
	store.SetSession(s1)
	got, err = store.Get(ctx, []byte(k1))
	v.Assert(err == nil && string(got) == "A", "C11/other-triple-does-not-overwrite")
	v.Cover("C11/survives")
}

// List: two records under two (type, session id, key) triples, then a
// listing (Dump) under the first triple's type and session with a symbolic
// prefix: the record of the other triple is never listed - neither its value
// nor, under the second session's name, its key - unless both triples address
// the same scope. Backends that implement listing: filesystem, Postgres.
func List(v *vrt.Ctx) {
	which := v.Param("backend")
	maxlen := v.Param("maxlen")
	ctx := context.Background()
	store := c10.Open(v, ctx, which)
	if which == 3 {
		var srv *pgfake.Server
		store, srv = c10.OpenPg()
		srv.SortedScan = v.Bool("index-scan")
	}
	t1 := types[v.Choice("type-one", len(types))]
	t2 := types[v.Choice("type-two", len(types))]
	s1 := v.Str("session-one", v.Choice("sessionlen-one", maxlen+1))
	s2 := v.Str("session-two", v.Choice("sessionlen-two", maxlen+1))
	k1 := v.Str("key-one", 1+v.Choice("keylen-one", maxlen))
	k2 := v.Str("key-two", 1+v.Choice("keylen-two", maxlen))
	for _, t := range []uint8{t1, t2} {
		if t&sessioned == 0 {
			store.SetLock(t, false)
		}
	}
	classes(v, which, true, t1, t2, s1, s2, k1, k2)
	sameScope := t1 == t2
	if sameScope && t1&sessioned != 0 {
		sameScope = s1 == s2
	}
	store.SetPrefix(t1)
	store.SetSession(s1)
	v.Assume(store.Put(ctx, []byte(k1), []byte("A")) == nil)
	store.SetPrefix(t2)
	store.SetSession(s2)
	v.Assume(store.Put(ctx, []byte(k2), []byte("B")) == nil)
	store.SetPrefix(t1)
	store.SetSession(s1)
	pfx := k1[:v.Choice("prefixlen", 2)]
	d, err := store.Dump(ctx, []byte(pfx))
	if err != nil {
		v.Cover("C11/list-error")
		return
	}
	for j := 0; j < 3; j++ {
		kk, vv := d.Next(ctx)
		if kk == nil {
			break
		}
		if !sameScope {
			v.Assert(string(vv) != "B", "C11/other-scope-is-not-listed")
		}
	}
	v.Cover("C11/listed")
}

// Crafted: a record of a session-scoped type stored without a session id (its
// file name is the type character followed by the key), and a client of
// another, non-empty session that asks for a key of its own choosing, long
// enough to spell that file name: it reads nothing. (Filesystem backend; the
// legacy-name fallback is the mechanism this walks into.)
func Crafted(v *vrt.Ctx) {
	which := v.Param("backend")
	ctx := context.Background()
	store := c10.Open(v, ctx, which)
	t1 := []uint8{db.DATATYPE_STATE, db.DATATYPE_USERDATA}[v.Choice("type-one", 2)]
	t2 := types[v.Choice("type-two", len(types))]
	k1 := v.Str("key-one", 1)
	s2 := v.Str("session-two", 1)
	k2 := v.Str("key-two", 2)
	if t2&sessioned == 0 {
		store.SetLock(t2, false)
	}
	classes(v, which, false, t1, t2, "", s2, k1, k2)
	store.SetPrefix(t1)
	store.SetSession("")
	v.Assume(store.Put(ctx, []byte(k1), []byte("A")) == nil)
	store.SetPrefix(t2)
	store.SetSession(s2)
	_, err := store.Get(ctx, []byte(k2))
	v.Assert(err != nil, "C11/crafted-key-reads-nothing")
	v.Cover("C11/crafted")
}

// PersistScope: the session persister and the application share one store
// handle (what engine.Config and a DbResource over the same store do). The
// application keeps user data - a byte string it does not control the content
// of, here a well-formed session record taken from elsewhere - under a key
// equal to a session's name; the persister is then asked for that session,
// with the handle left on whatever data type it was last used for. There is
// no state record, so nothing may be loaded: the user data is never taken for
// session state. And the other way round: after a save the application finds
// no user data under the session's name.
func PersistScope(v *vrt.Ctx) {
	which := v.Param("backend")
	ctx := context.Background()
	name := "s" + v.Str("name", 1)
	c0 := name[1]
	v.Assume(v.Or(v.And(c0 >= 'a', c0 <= 'z'), v.And(c0 >= '0', c0 <= '9')))
	// a well-formed record: another session, deeper in its application
	other := c10.Open(v, ctx, 0)
	ost := state.NewState(4)
	ost.Down("root")
	ost.Down("deep")
	oca := cache.NewCache()
	oca.Push()
	oca.Push()
	v.Assume(persist.NewPersister(other).WithContent(ost, oca).Save(name) == nil)
	other.SetPrefix(db.DATATYPE_STATE)
	other.SetSession("")
	blob, err := other.Get(ctx, []byte(name))
	v.Assume(err == nil)

	store := c10.Open(v, ctx, which)
	last := types[v.Choice("handle-last-used-for", len(types))]
	// the persister exists before or after the application last touched the
	// handle (an engine builds its persister first and runs application code
	// between load and save)
	early := v.Choice("persister-made-first", 2) == 1
	if v.Choice("direction", 2) == 0 {
		st, ca := state.NewState(4), cache.NewCache()
		var pe *persist.Persister
		if early {
			pe = persist.NewPersister(store).WithContent(st, ca)
		}
		store.SetPrefix(db.DATATYPE_USERDATA)
		v.Assume(store.Put(ctx, []byte(name), blob) == nil)
		store.SetPrefix(last)
		if !early {
			pe = persist.NewPersister(store).WithContent(st, ca)
		}
		lerr := pe.Load(name)
		v.Assert(lerr != nil, "C11/user-data-is-not-loaded-as-session-state")
		v.Assert(len(pe.GetState().ExecPath) == 0, "C11/user-data-is-not-loaded-as-session-state")
		v.Cover("C11/persist-scope-load")
		return
	}
	st, ca := state.NewState(4), cache.NewCache()
	st.Down("root")
	ca.Push()
	var pe *persist.Persister
	if early {
		pe = persist.NewPersister(store).WithContent(st, ca)
	}
	store.SetPrefix(last)
	if !early {
		pe = persist.NewPersister(store).WithContent(st, ca)
	}
	v.Assume(pe.Save(name) == nil)
	store.SetPrefix(db.DATATYPE_USERDATA)
	_, gerr := store.Get(ctx, []byte(name))
	v.Assert(gerr != nil, "C11/session-state-is-not-returned-as-user-data")
	store.SetPrefix(db.DATATYPE_STATE)
	got, gerr := store.Get(ctx, []byte(name))
	v.Assert(gerr == nil && len(got) > 0, "C11/session-state-is-stored-under-its-type")
	v.Cover("C11/persist-scope-save")
}

// OwnRecord: a record is written under one (type, session, key) and another
// under a second one, arbitrary bytes in both names. Reading the second then
// returns what was written under the second - whatever else the store holds,
// a session that has a record of its own gets that one. (No input class is
// exempt here: where two names fall together the second write replaced the
// first, and the fallbacks of finding F9 only apply when a session has no
// record of its own.)
func OwnRecord(v *vrt.Ctx) {
	which := v.Param("backend")
	maxlen := v.Param("maxlen")
	ctx := context.Background()
	store := c10.Open(v, ctx, which)
	t1 := types[v.Choice("type-one", len(types))]
	t2 := types[v.Choice("type-two", len(types))]
	s1 := v.Str("session-one", v.Choice("sessionlen-one", maxlen+1))
	s2 := v.Str("session-two", v.Choice("sessionlen-two", maxlen+1))
	k1 := v.Str("key-one", 1+v.Choice("keylen-one", maxlen))
	k2 := v.Str("key-two", 1+v.Choice("keylen-two", maxlen))
	for _, t := range []uint8{t1, t2} {
		if t&sessioned == 0 {
			store.SetLock(t, false)
		}
	}
	store.SetPrefix(t1)
	store.SetSession(s1)
	v.Assume(store.Put(ctx, []byte(k1), []byte("A")) == nil)
	store.SetPrefix(t2)
	store.SetSession(s2)
	v.Assume(store.Put(ctx, []byte(k2), []byte("B")) == nil)
	got, err := store.Get(ctx, []byte(k2))
	v.Assert(err == nil && string(got) == "B", "C11/own-record-is-the-one-returned")
	v.Cover("C11/own-record")
}

var Harnesses = map[string]func(*vrt.Ctx){
	"OwnRecord":    OwnRecord,
	"PersistScope": PersistScope,
	"Crafted":      Crafted,
	"List":         List,
	"Inject":       Inject,
}

// Package c08: no sequence of client inputs can crash the engine or corrupt
// a session.
package c08

import (
	"context"

	"git.defalsify.org/vise.git/cache"
	"git.defalsify.org/vise.git/db/mem"
	"git.defalsify.org/vise.git/engine"
	"git.defalsify.org/vise.git/persist"
	"git.defalsify.org/vise.git/state"
	"vharness/app"
	"vharness/apps"
	"vharness/c07"
	"vharness/c17"
	"vharness/vrt"
)

// AnyInput: 0..2 arbitrary bytes (all 256 values, '{' excluded), or an
// over-long input of 256 or 300 bytes whose first two bytes are arbitrary.
func AnyInput(v *vrt.Ctx) []byte {
	switch v.Choice("inputshape", 5) {
	case 3:
		return long(v, 256)
	case 4:
		return long(v, 300)
	default:
	}
	return c07.Input(v, 2)
}

func long(v *vrt.Ctx, n int) []byte {
	b := make([]byte, n)
	for i := range b {
		b[i] = 'a'
	}
	h := v.Bytes("longhead", 2)
	for _, x := range h {
		v.Assume(x != '{')
	}
	copy(b, h)
	return b
}

// Consistent asserts the session invariants on the live state and cache.
func Consistent(v *vrt.Ctx, st *state.State, ca *cache.Cache, tag string) {
	v.Assert(int(ca.Levels()) == len(st.ExecPath)+1, "C08/one-cache-scope-per-level"+tag)
	sum := 0
	for _, fr := range ca.Cache {
		for _, val := range fr {
			sum += len(val)
		}
	}
	v.Assert(int(ca.CacheUseSize) == sum, "C08/cache-accounting-matches-contents"+tag)
}

// Hist: K requests with arbitrary inputs against a long-lived engine; after
// every request the invariants hold and the session can be saved, loaded and
// continued.
func Hist(v *vrt.Ctx) {
	k := v.Param("K")
	which := v.Param("app")
	ctx := context.Background()
	cfg := engine.Config{Root: "root", FlagCount: 4, SessionId: "s1"}
	cfg.OutputSize, cfg.CacheSize = c07.Sizes(v)
	rs := apps.Get(which)
	st := state.NewState(cfg.FlagCount)
	ca := cache.NewCache().WithCacheSize(cfg.CacheSize)
	en := engine.NewEngine(cfg, rs).WithState(st).WithMemory(ca)
	croaked := false
	highByte := false
	for i := 0; i < k; i++ {
		var in []byte
		if i > 0 {
			in = AnyInput(v)
		}
		for _, b := range in {
			highByte = v.Or(highByte, b >= 0x80)
		}
		codeBefore, depthBefore := string(st.Code), len(st.ExecPath)
		cont, err := en.Exec(ctx, in)
		v.Observe("cont", cont)
		v.Observe("err", err)
		if i > 0 && (len(in) > 255 || (len(in) > 0 && !c17.DocumentedFormat(v, in))) {
			// input the engine must refuse (too long, or not of the documented
			// format): the session is as it was, pending code included, and
			// the history goes on
			v.Assert(err != nil, "C08/refused-input-is-an-error")
			v.Assert(string(st.Code) == codeBefore && len(st.ExecPath) == depthBefore, "C08/refused-input-does-not-damage-the-session")
			v.Cover("C08/refused-input")
			continue
		}
		w := &app.Sink{}
		en.Flush(ctx, w)
		v.Observe("out", w.S)
		if apps.NeverEnds(which) && err == nil {
			// nothing a client sends ends a session the application does not end
			v.Assert(cont, "C08/client-input-does-not-end-the-session")
			v.Assert(st.Flags[0]&(1<<state.FLAG_TERMINATE) == 0, "C08/client-input-does-not-end-the-session")
		}
		if len(st.ExecPath) == 0 {
			// graceful end: the engine has unwound the session; the next
			// request starts again at the entry node
			v.Assert(int(ca.Levels()) == 1, "C08/ended-session-has-one-scope")
			v.Cover("C08/session-restarts")
			continue
		}
		// F13: CROAK while the stack is deeper than the entry node resets the
		// cache to one scope but leaves the stack
		for _, n := range st.ExecPath {
			if n == "boom" {
				croaked = true
			}
		}
		v.Finding("F13-croak-below-entry-node", croaked)
		Consistent(v, st, ca, "")
		// F22: input that is not valid UTF-8 and is stored (cache value, pending
		// input) makes the saved record undecodable
		v.Finding("F22-input-not-utf8", highByte)
		// the session can be saved, loaded into a fresh persister and is the same
		store := mem.NewMemDb()
		store.Connect(ctx, "")
		pe := persist.NewPersister(store).WithContent(st, ca)
		v.Assert(pe.Save("s1") == nil, "C08/session-can-be-saved")
		pe2 := persist.NewPersister(store).WithContent(state.NewState(cfg.FlagCount), cache.NewCache())
		v.Assert(pe2.Load("s1") == nil, "C08/session-can-be-loaded")
		st2, ca2 := pe2.GetState(), pe2.Memory
		v.Assert(len(st2.ExecPath) == len(st.ExecPath) && st2.SizeIdx == st.SizeIdx, "C08/loaded-session-is-the-same")
		v.Assert(ca2.CacheUseSize == ca.CacheUseSize && ca2.Levels() == ca.Levels(), "C08/loaded-session-is-the-same")
		if !cont {
			v.Cover("C08/session-ended")
			break
		}
	}
	v.Cover("C08/history-done")
}

var Harnesses = map[string]func(*vrt.Ctx){
	"Hist": Hist,
}

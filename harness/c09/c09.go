// Package c09: the symbol cache enforces its limits and accounts for every
// byte (one inductive step from an arbitrary valid state, plus short
// histories from NewCache to show the invariant is the reachable one).
package c09

import (
	"git.defalsify.org/vise.git/cache"
	"vharness/vrt"
)

var keys = []string{"k0", "k1", "k2"}

func nkeys(v *vrt.Ctx) int { return v.Param("keys") }

const maxLen = 70000

type entry struct {
	frame int // -1 absent
	val   string
	limit uint16
}

type model struct {
	frames int
	e      [3]entry
	cap    uint32
	use    int
}

// arbitrary builds a cache in an arbitrary state satisfying the
// representation invariant I1-I5 (appendix A.3) through its exported fields.
func arbitrary(v *vrt.Ctx) (*cache.Cache, *model) {
	m := &model{}
	m.frames = 1 + v.Choice("frames", v.Param("frames"))
	ca := cache.NewCache()
	for i := 1; i < m.frames; i++ {
		ca.Cache = append(ca.Cache, make(map[string]string))
	}
	for i, k := range keys[:nkeys(v)] {
		f := v.Choice("frameof-"+k, m.frames+1) - 1
		m.e[i].frame = f
		if f < 0 {
			continue
		}
		val := v.Opaque("len-"+k, byte('a'+i), 0, maxLen)
		lim := v.U16("limit-" + k)
		v.Assume(v.Or(lim == 0, len(val) <= int(lim)))
		m.e[i].val, m.e[i].limit = val, lim
		ca.Cache[f][k] = val
		ca.Sizes[k] = lim
		m.use += len(val)
	}
	m.cap = v.U32("capacity")
	v.Assume(v.Or(m.cap == 0, uint32(m.use) <= m.cap))
	ca.CacheSize = m.cap
	ca.CacheUseSize = uint32(m.use)
	return ca, m
}

// invariant asserts I1-I5 on the real cache object.
func invariant(v *vrt.Ctx, ca *cache.Cache, tag string) {
	v.Assert(len(ca.Cache) >= 1, "C09/inv-frames"+tag)
	sum := 0
	for _, k := range keys[:nkeys(v)] {
		n := 0
		for _, fr := range ca.Cache {
			if val, ok := fr[k]; ok {
				n++
				sum += len(val)
				lim, have := ca.Sizes[k]
				v.Assert(have, "C09/inv-live-key-has-limit"+tag)
				v.Assert(v.Or(lim == 0, len(val) <= int(lim)), "C09/inv-value-within-limit"+tag)
			}
		}
		v.Assert(n <= 1, "C09/inv-one-scope"+tag)
	}
	if fr := ca.Cache[len(ca.Cache)-1]; true {
		if val, ok := fr["fresh"]; ok {
			sum += len(val)
		}
	}
	v.Assert(int(ca.CacheUseSize) == sum, "C09/inv-use-equals-sum"+tag)
	v.Assert(v.Or(ca.CacheSize == 0, ca.CacheUseSize <= ca.CacheSize), "C09/inv-within-capacity"+tag)
}

// unchanged asserts that the exported state equals the model of the pre-state.
func unchanged(v *vrt.Ctx, ca *cache.Cache, m *model, id string) {
	v.Assert(len(ca.Cache) == m.frames, id)
	v.Assert(int(ca.CacheUseSize) == m.use, id)
	v.Assert(ca.CacheSize == m.cap, id)
	for i, k := range keys[:nkeys(v)] {
		for f := 0; f < len(ca.Cache) && f < m.frames; f++ {
			val, ok := ca.Cache[f][k]
			if m.e[i].frame == f {
				v.Assert(v.And(ok, val == m.e[i].val), id)
			} else {
				v.Assert(!ok, id)
			}
		}
		lim, have := ca.Sizes[k]
		if m.e[i].frame >= 0 {
			v.Assert(v.And(have, lim == m.e[i].limit), id)
		} else {
			v.Assert(!have, id)
		}
	}
}

// Step: one cache operation with arbitrary arguments from an arbitrary valid
// state.
func Step(v *vrt.Ctx) {
	ca, m := arbitrary(v)
	op := v.Choice("op", 7)
	switch op {
	case 0: // Add
		ki := v.Choice("key", nkeys(v))
		val := v.Opaque("newlen", 'n', 0, maxLen)
		lim := v.U16("newlimit")
		v.Finding("F3-length-over-65535", len(val) > 65535)
		err := ca.Add(keys[ki], val, lim)
		live := m.e[ki].frame >= 0
		fits := v.Or(lim == 0, len(val) <= int(lim))
		room := v.Or(v.Or(m.cap == 0, len(val) == 0), uint32(m.use)+uint32(len(val)) <= m.cap)
		want := v.And(!live, v.And(fits, room))
		v.Observe("add-err", err)
		if err != nil {
			v.Cover("C09/add-rejected")
			v.Assert(!want, "C09/add-acceptable-was-rejected")
			unchanged(v, ca, m, "C09/rejected-add-unchanged")
		} else {
			v.Cover("C09/add-accepted")
			v.Assert(want, "C09/add-accepted-against-limit-or-capacity")
			got, ok := ca.Cache[len(ca.Cache)-1][keys[ki]]
			v.Assert(v.And(ok, got == val), "C09/add-stored-in-current-scope")
			v.Assert(ca.Sizes[keys[ki]] == lim, "C09/add-records-limit")
			v.Assert(int(ca.CacheUseSize) == m.use+len(val), "C09/add-accounts-bytes")
		}
	case 1: // Update
		ki := v.Choice("key", nkeys(v))
		val := v.Opaque("newlen", 'n', 0, maxLen)
		v.Finding("F3-length-over-65535", len(val) > 65535)
		v.Finding("F4-update-to-empty", len(val) == 0)
		err := ca.Update(keys[ki], val)
		e := m.e[ki]
		live := e.frame >= 0
		fits := v.Or(e.limit == 0, len(val) <= int(e.limit))
		room := v.Or(m.cap == 0, uint32(m.use-len(e.val)+len(val)) <= m.cap)
		want := v.And(live, v.And(fits, room))
		v.Observe("update-err", err)
		if err != nil {
			v.Cover("C09/update-rejected")
			v.Assert(!want, "C09/update-acceptable-was-rejected")
			unchanged(v, ca, m, "C09/rejected-update-unchanged")
		} else {
			v.Cover("C09/update-accepted")
			v.Assert(want, "C09/update-accepted-against-limit-or-capacity")
			got, ok := ca.Cache[e.frame][keys[ki]]
			v.Assert(v.And(ok, got == val), "C09/update-replaces-value")
			v.Assert(int(ca.CacheUseSize) == m.use-len(e.val)+len(val), "C09/update-accounts-bytes")
		}
	case 2: // Get
		ki := v.Choice("key", nkeys(v))
		got, err := ca.Get(keys[ki])
		if m.e[ki].frame >= 0 {
			v.Assert(v.And(err == nil, got == m.e[ki].val), "C09/get-returns-live-value")
			v.Cover("C09/get-hit")
		} else {
			v.Assert(err != nil, "C09/get-of-absent-key-fails")
			v.Cover("C09/get-miss")
		}
		unchanged(v, ca, m, "C09/get-unchanged")
	case 3: // Push
		err := ca.Push()
		v.Assert(err == nil, "C09/push-ok")
		v.Assert(len(ca.Cache) == m.frames+1 && len(ca.Cache[m.frames]) == 0, "C09/push-adds-empty-scope")
		v.Assert(int(ca.CacheUseSize) == m.use, "C09/push-keeps-use")
		v.Cover("C09/push")
	case 4: // Pop
		err := ca.Pop()
		v.Assert(err == nil, "C09/pop-ok")
		released := 0
		for i := range keys[:nkeys(v)] {
			if m.e[i].frame == m.frames-1 {
				released += len(m.e[i].val)
				_, have := ca.Sizes[keys[i]]
				v.Assert(!have, "C09/pop-forgets-limits")
				_, err := ca.Get(keys[i])
				v.Assert(err != nil, "C09/pop-removes-symbols")
			} else if m.e[i].frame >= 0 {
				got, err := ca.Get(keys[i])
				v.Assert(v.And(err == nil, got == m.e[i].val), "C09/pop-keeps-outer-symbols")
			}
		}
		v.Assert(int(ca.CacheUseSize) == m.use-released, "C09/pop-releases-exactly-the-scope")
		if m.frames > 1 {
			v.Assert(len(ca.Cache) == m.frames-1, "C09/pop-removes-one-scope")
			v.Cover("C09/pop-inner")
		} else {
			v.Assert(len(ca.Cache) == 1, "C09/pop-keeps-one-scope")
			v.Cover("C09/pop-last")
		}
	case 5: // Reset
		ca.Reset()
		kept := 0
		for i := range keys[:nkeys(v)] {
			if m.e[i].frame == 0 {
				kept += len(m.e[i].val)
			}
		}
		v.Assert(len(ca.Cache) == 1, "C09/reset-keeps-first-scope-only")
		v.Assert(int(ca.CacheUseSize) == kept, "C09/reset-accounts-first-scope")
		v.Cover("C09/reset")
		return // limits of dropped symbols: see Seq (Reset leaves stale limits; not part of I1-I5 for absent keys)
	case 6: // Last
		ca.LastValue = v.Opaque("last", 'l', 0, maxLen)
		want := ca.LastValue
		got := ca.Last()
		v.Assert(got == want, "C09/last-returns-value")
		v.Assert(ca.Last() == "", "C09/last-clears")
		unchanged(v, ca, m, "C09/last-unchanged")
		v.Cover("C09/last")
	}
	invariant(v, ca, "")
}

// Seq: K operations from NewCache through the API only, invariant after each.
func Seq(v *vrt.Ctx) {
	k := v.Param("K")
	ca := cache.NewCache()
	ca = ca.WithCacheSize(v.U32("capacity"))
	for i := 0; i < k; i++ {
		switch v.Choice("op", 5) {
		case 0:
			val := v.Opaque("len", byte('a'+i), 0, maxLen)
			v.Finding("F3-length-over-65535", len(val) > 65535)
			ca.Add(keys[v.Choice("key", 2)], val, v.U16("limit"))
		case 1:
			val := v.Opaque("len", byte('a'+i), 0, maxLen)
			v.Finding("F3-length-over-65535", len(val) > 65535)
			v.Finding("F4-update-to-empty", len(val) == 0)
			ca.Update(keys[v.Choice("key", 2)], val)
		case 2:
			ca.Push()
		case 3:
			ca.Pop()
		case 4:
			ca.Reset()
		}
		invariant(v, ca, "-seq")
	}
	v.Cover("C09/seq-done")
}

// ResetPush: a scope is opened, a symbol of any length is added in it, then
// the cache is reset (or the scope popped) and a scope opened again: the new
// scope is empty - nothing of the released one comes back - and the
// invariant holds after every step. (A history of four operations; the
// three-operation bound of Seq does not reach it.)
func ResetPush(v *vrt.Ctx) {
	ca := cache.NewCache()
	ca = ca.WithCacheSize(v.U32("capacity"))
	v.Assume(ca.Push() == nil)
	val := v.Opaque("len", 'a', 1, maxLen)
	v.Finding("F3-length-over-65535", len(val) > 65535)
	v.Assume(ca.Add(keys[0], val, v.U16("limit")) == nil)
	invariant(v, ca, "-resetpush")
	if v.Choice("release-by", 2) == 0 {
		ca.Reset()
	} else {
		v.Assume(ca.Pop() == nil)
	}
	invariant(v, ca, "-resetpush")
	v.Assert(ca.CacheUseSize == 0, "C09/released-scope-gives-its-bytes-back")
	v.Assume(ca.Push() == nil)
	invariant(v, ca, "-resetpush")
	_, err := ca.Get(keys[0])
	v.Assert(err != nil, "C09/released-symbol-does-not-come-back")
	v.Assert(ca.CacheUseSize == 0, "C09/released-scope-gives-its-bytes-back")
	v.Assert(ca.Add(keys[0], "x", 0) == nil, "C09/released-symbol-does-not-come-back")
	v.Cover("C09/resetpush")
}

var Harnesses = map[string]func(*vrt.Ctx){
	"ResetPush": ResetPush,
	"Step":      Step,
	"Seq":       Seq,
}

// vreplay runs harnesses natively against the real go-vise build with value
// tables produced by the solver (counterexample replay and per-path witness
// validation). Input: JSON lines on stdin; output: JSON lines on stdout.
package main

import (
	"bufio"
	"bytes"
	"encoding/json"
	"fmt"
	"os"
	"os/exec"
	"sort"
	"syscall"

	"vharness/vrt"
)

type job struct {
	ID      int            `json:"id"`
	Harness string         `json:"harness"`
	Params  map[string]int `json:"params"`
	Draws   []vrt.Draw     `json:"draws"`
}

type result struct {
	ID      int          `json:"id"`
	Outcome string       `json:"outcome"` // ok | assert | panic | assume | draws | unknown-harness
	FailID  string       `json:"fail_id,omitempty"`
	Msg     string       `json:"msg,omitempty"`
	Obs     []vrt.Obs    `json:"obs"`
	Covers  []string     `json:"covers"`
	Classes []string     `json:"classes"`
}

// harnesses whose runs must not share a process
var isolated = map[string]bool{"c19.Validators": true}

func main() {
	if len(os.Args) > 1 && os.Args[1] == "-list" {
		var names []string
		for n := range registry {
			names = append(names, n)
		}
		sort.Strings(names)
		for _, n := range names {
			fmt.Println(n)
		}
		return
	}
	// silence anything the library prints
	in := bufio.NewReaderSize(os.Stdin, 1<<20)
	out := bufio.NewWriter(os.Stdout)
	defer out.Flush()
	dec := json.NewDecoder(in)
	enc := json.NewEncoder(out)
	for {
		var j job
		if err := dec.Decode(&j); err != nil {
			return
		}
		h, ok := registry[j.Harness]
		if !ok {
			enc.Encode(result{ID: j.ID, Outcome: "unknown-harness"})
			continue
		}
		if isolated[j.Harness] && os.Getenv("VREPLAY_CHILD") == "" {
			// this harness changes process-wide state of the library (that is
			// its subject): every run gets a process of its own
			jb, _ := json.Marshal(j)
			cmd := exec.Command(os.Args[0])
			cmd.Env = append(os.Environ(), "VREPLAY_CHILD=1")
			cmd.Stdin = bytes.NewReader(jb)
			cmd.Stderr = os.Stderr
			ob, err := cmd.Output()
			var r result
			if err != nil || json.Unmarshal(ob, &r) != nil {
				r = result{ID: j.ID, Outcome: "child-failed", Msg: fmt.Sprint(err)}
			}
			enc.Encode(r)
			out.Flush()
			continue
		}
		job := j
		vrt.Spawn = func(env []string, wrapper []string) (bool, error) {
			// re-run this job as a crash child
			jb, _ := json.Marshal(job)
			argv := append(append([]string{}, wrapper...), os.Args[0])
			cmd := exec.Command(argv[0], argv[1:]...)
			cmd.Env = append(os.Environ(), env...)
			cmd.Stdin = bytes.NewReader(jb)
			cmd.Stderr = os.Stderr
			err := cmd.Run()
			if ee, ok := err.(*exec.ExitError); ok {
				if ws, ok := ee.Sys().(syscall.WaitStatus); ok {
					if ws.Signaled() {
						return true, nil
					}
					// under strace the tracer exits with 128+signal
					if ws.ExitStatus() >= 128 {
						return true, nil
					}
					return false, fmt.Errorf("child exit status %d", ws.ExitStatus())
				}
			}
			return false, err
		}
		c := vrt.Run(h, j.Params, j.Draws)
		r := result{ID: j.ID, Outcome: "ok", Obs: c.Obs, Covers: c.Covers, Classes: c.Classes}
		if c.Fail != nil {
			r.Outcome, r.FailID, r.Msg = c.Fail.Kind, c.Fail.ID, c.Fail.Msg
		}
		if c.Skipped != "" {
			r.Outcome, r.Msg = "skip", c.Skipped
		}
		enc.Encode(r)
		out.Flush()
	}
}

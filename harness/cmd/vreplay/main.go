// vreplay runs harnesses natively against the real go-vise build with value
// tables produced by the solver (counterexample replay and per-path witness
// validation). Input: JSON lines on stdin; output: JSON lines on stdout.
package main

import (
	"bufio"
	"encoding/json"
	"fmt"
	"os"
	"sort"

	"vharness/vrt"
)

type job struct {
	ID      int            `json:"id"`
	Harness string         `json:"harness"`
	Params  map[string]int `json:"params"`
	Draws   []vrt.Draw     `json:"draws"`
}

type result struct {
	ID      int          `json:"id"`
	Outcome string       `json:"outcome"` // ok | assert | panic | assume | draws | unknown-harness
	FailID  string       `json:"fail_id,omitempty"`
	Msg     string       `json:"msg,omitempty"`
	Obs     []vrt.Obs    `json:"obs"`
	Covers  []string     `json:"covers"`
	Classes []string     `json:"classes"`
}

func main() {
	if len(os.Args) > 1 && os.Args[1] == "-list" {
		var names []string
		for n := range registry {
			names = append(names, n)
		}
		sort.Strings(names)
		for _, n := range names {
			fmt.Println(n)
		}
		return
	}
	// silence anything the library prints
	in := bufio.NewReaderSize(os.Stdin, 1<<20)
	out := bufio.NewWriter(os.Stdout)
	defer out.Flush()
	dec := json.NewDecoder(in)
	enc := json.NewEncoder(out)
	for {
		var j job
		if err := dec.Decode(&j); err != nil {
			return
		}
		h, ok := registry[j.Harness]
		if !ok {
			enc.Encode(result{ID: j.ID, Outcome: "unknown-harness"})
			continue
		}
		c := vrt.Run(h, j.Params, j.Draws)
		r := result{ID: j.ID, Outcome: "ok", Obs: c.Obs, Covers: c.Covers, Classes: c.Classes}
		if c.Fail != nil {
			r.Outcome, r.FailID, r.Msg = c.Fail.Kind, c.Fail.ID, c.Fail.Msg
		}
		enc.Encode(r)
		out.Flush()
	}
}

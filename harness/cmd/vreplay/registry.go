package main

import (
	"vharness/c01"
	"vharness/c02"
	"vharness/c03"
	"vharness/c04"
	"vharness/c05"
	"vharness/c06"
	"vharness/c07"
	"vharness/c08"
	"vharness/c09"
	"vharness/c10"
	"vharness/c11"
	"vharness/c12"
	"vharness/c13"
	"vharness/c17"
	"vharness/c18"
	"vharness/c19"
	"vharness/c20"
	"vharness/c14"
	"vharness/c15"
	"vharness/conf"
	"vharness/vrt"
)

var registry = map[string]func(*vrt.Ctx){}

func add(pkg string, m map[string]func(*vrt.Ctx)) {
	for k, v := range m {
		registry[pkg+"."+k] = v
	}
}

func init() {
	add("c01", c01.Harnesses)
	add("c02", c02.Harnesses)
	add("c03", c03.Harnesses)
	add("c04", c04.Harnesses)
	add("c05", c05.Harnesses)
	add("c06", c06.Harnesses)
	add("c07", c07.Harnesses)
	add("c08", c08.Harnesses)
	add("c09", c09.Harnesses)
	add("c10", c10.Harnesses)
	add("c11", c11.Harnesses)
	add("c12", c12.Harnesses)
	add("c13", c13.Harnesses)
	add("c17", c17.Harnesses)
	add("c18", c18.Harnesses)
	add("c19", c19.Harnesses)
	add("c20", c20.Harnesses)
	add("c14", c14.Harnesses)
	add("c15", c15.Harnesses)
	add("conf", conf.Harnesses)
}

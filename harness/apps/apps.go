// Package apps: the applications served by the engine-level harnesses.
package apps

import (
	"context"
	"fmt"

	"git.defalsify.org/vise.git/resource"
	"git.defalsify.org/vise.git/state"
	"vharness/app"
)

// Intro: LOAD/RELOAD/MAP, a CATCH on a client flag, a paginated sink with
// MNEXT/MPREV, a catch node. Selectors: 1 one, 2 list, 3 flag node, 0 back.
func Intro() *app.Res {
	rs := app.NewRes()
	rs.Funcs["greet"] = app.Static("world")
	rs.Funcs["rows"] = app.Static("alpha\nbeta\ngamma\ndelta\nepsilon\nzeta")
	rs.Funcs["count"] = func(ctx context.Context, sym string, input []byte) (resource.Result, error) {
		return resource.Result{Content: "n" + string(input)}, nil
	}
	rs.Funcs["raise"] = func(ctx context.Context, sym string, input []byte) (resource.Result, error) {
		return resource.Result{Content: "raised", FlagSet: []uint32{state.FLAG_USERSTART}}, nil
	}
	rs.Node("root", "hello {{.greet}}", app.Code().Load("greet", 20).Map("greet").MOut("go", "1").MOut("list", "2").MOut("flag", "3").Halt().
		InCmp("one", "1").InCmp("list", "2").InCmp("flagged", "3").Bytes())
	rs.Node("one", "one {{.count}}", app.Code().Load("count", 10).Reload("count").MOut("back", "0").Halt().InCmp("_", "0").InCmp(".", "*").Bytes())
	rs.Node("list", "list:\n{{.rows}}", app.Code().Load("rows", 0).Map("rows").MNext("next", "11").MPrev("prev", "22").MOut("back", "0").Halt().
		InCmp(">", "11").InCmp("<", "22").InCmp("_", "0").Bytes())
	rs.Node("flagged", "flagged", app.Code().Load("raise", 10).Catch("caught", state.FLAG_USERSTART, true).Halt().InCmp("_", "0").Bytes())
	rs.Node("caught", "caught", app.Code().MOut("top", "0").Halt().InCmp("^", "0").Bytes())
	rs.Node("_catch", "oops", app.Code().MOut("back", "0").Halt().InCmp("_", "*").Bytes())
	return rs
}

// MenuSink: a long menu under MSINK with browse entries, and an end node
// whose code runs out right after a HALT (graceful end).
func MenuSink() *app.Res {
	rs := app.NewRes()
	rs.Funcs["bye"] = app.Static("bye")
	rs.Funcs["note"] = app.Static("note")
	rs.Node("root", "pick", app.Code().MSink().MNext("more", "8").MPrev("less", "9").
		MOut("first", "1").MOut("second", "2").MOut("third", "3").MOut("fourth", "4").Halt().
		InCmp(">", "8").InCmp("<", "9").InCmp("end", "1").InCmp("sub", "2").InCmp("fin", "3").Bytes())
	// a node that loads a symbol one level down, and an end node that loads
	// nothing: what the engine appends at the end is the last loaded value
	rs.Node("sub", "sub {{.note}}", app.Code().Load("note", 8).Map("note").MOut("back", "0").Halt().InCmp("_", "0").Bytes())
	rs.Node("fin", "fin", app.Code().Halt().Bytes())
	rs.Node("end", "done {{.bye}}", app.Code().Load("bye", 8).Map("bye").Halt().Bytes())
	rs.Node("_catch", "oops", app.Code().MOut("back", "0").Halt().InCmp("_", "*").Bytes())
	return rs
}

// Croak: a node that CROAKs on a client flag raised one level down.
func Croak() *app.Res {
	rs := app.NewRes()
	rs.Funcs["raise"] = func(ctx context.Context, sym string, input []byte) (resource.Result, error) {
		return resource.Result{Content: "r", FlagSet: []uint32{state.FLAG_USERSTART}}, nil
	}
	rs.Funcs["val"] = app.Static("v")
	rs.Node("root", "root {{.val}}", app.Code().Load("val", 4).Map("val").MOut("down", "1").Halt().InCmp("deep", "1").Bytes())
	rs.Node("deep", "deep", app.Code().MOut("raise", "1").MOut("back", "0").Halt().InCmp("boom", "1").InCmp("_", "0").Bytes())
	rs.Node("boom", "boom", app.Code().Load("raise", 4).Croak(state.FLAG_USERSTART, true).Halt().Bytes())
	rs.Node("_catch", "oops", app.Code().MOut("back", "0").Halt().InCmp("_", "*").Bytes())
	return rs
}

// TwoSinks: two nodes, each with a paginated sink of its own (a different
// zero-size symbol), reachable from one another: the renderer of a long-lived
// engine sees sink A, then sink B, then sink A again.
func TwoSinks() *app.Res {
	rs := app.NewRes()
	rs.Funcs["ra"] = app.Static("ant\nbee\ncat\ndog\neel")
	rs.Funcs["rb"] = app.Static("one\ntwo\nthree\nfour")
	rs.Node("root", "a:\n{{.ra}}", app.Code().Load("ra", 0).Map("ra").MNext("fw", "8").MPrev("bk", "9").MOut("b", "1").Halt().
		InCmp(">", "8").InCmp("<", "9").InCmp("other", "1").Bytes())
	rs.Node("other", "b:\n{{.rb}}", app.Code().Load("rb", 0).Map("rb").MNext("fw", "8").MPrev("bk", "9").MOut("a", "0").Halt().
		InCmp("_", "0").InCmp(">", "8").InCmp("<", "9").Bytes()) // "previous" is this node's last line
	rs.Node("_catch", "oops", app.Code().MOut("back", "0").Halt().InCmp("_", "*").Bytes())
	return rs
}

// NeverEnds: no input ends a session of this application (every node stops
// at a HALT in front of its INCMP lines, none terminates).
func NeverEnds(i int) bool { return i == 0 || i == 3 || i == 5 }

// Refresh: a node that shows a value, stops, and on any input loads the value
// again and stops again without moving (a refresh-on-any-input screen): the
// page after the second HALT is rendered by a VM that has not moved since.
func Refresh() *app.Res {
	rs := app.NewRes()
	rs.Funcs["echo"] = func(ctx context.Context, sym string, input []byte) (resource.Result, error) {
		return resource.Result{Content: "value " + string(input) + string(input) + string(input)}, nil
	}
	rs.Node("root", "now: {{.echo}}", app.Code().Load("echo", 20).Map("echo").MOut("again", "1").Halt().
		Reload("echo").Halt().InCmp(".", "*").Bytes())
	rs.Node("_catch", "oops", app.Code().MOut("back", "0").Halt().InCmp("_", "*").Bytes())
	return rs
}

// Faulty: an external function that fails for some client input (a refused
// PIN): the VM raises LOADFAIL and goes to the catch node with the function's
// error as the page's error prefix. Any input at the entry node is checked;
// then 0 to the top, 1 back.
func Faulty() *app.Res {
	rs := app.NewRes()
	rs.Funcs["verify"] = func(ctx context.Context, sym string, input []byte) (resource.Result, error) {
		if len(input) > 0 && input[0] == '7' {
			return resource.Result{}, fmt.Errorf("refused")
		}
		return resource.Result{Content: "ok"}, nil
	}
	rs.Funcs["tip"] = app.Static("tip")
	rs.Funcs["extra"] = app.Static("xy") // a second symbol on the same level
	rs.Node("root", "pin? {{.tip}}", app.Code().Load("tip", 8).Map("tip").Halt().InCmp("check", "*").Bytes())
	rs.Node("check", "checked {{.verify}}", app.Code().Load("verify", 8).Load("extra", 8).Map("verify").MOut("top", "0").MOut("again", "1").Halt().
		InCmp("^", "0").InCmp("_", "1").Bytes())
	rs.Node("_catch", "oops", app.Code().MOut("back", "0").Halt().InCmp("_", "*").Bytes())
	return rs
}

func Get(i int) *app.Res {
	switch i {
	case 5:
		return Faulty()
	case 0:
		return Intro()
	case 1:
		return MenuSink()
	case 3:
		return TwoSinks()
	case 4:
		return Refresh()
	}
	return Croak()
}

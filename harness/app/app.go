// Package app holds harness-side application scaffolding: an in-memory
// resource.Resource with call logging, and a small bytecode builder.
package app

import (
	"context"
	"fmt"

	"git.defalsify.org/vise.git/lang"
	"git.defalsify.org/vise.git/resource"
	"git.defalsify.org/vise.git/vm"
)

type Node struct {
	Code []byte
	Tpl  string
}

type Call struct {
	Kind  string // "func", "template", "menu", "code", "funcfor"
	Sym   string
	Input string
	Lang  string
}

// Res is a resource.Resource over maps. Unknown nodes/templates are errors.
type Res struct {
	Nodes map[string]*Node
	Menus map[string]string
	Funcs map[string]resource.EntryFunc
	Log   []Call
}

func NewRes() *Res {
	return &Res{Nodes: map[string]*Node{}, Menus: map[string]string{}, Funcs: map[string]resource.EntryFunc{}}
}

func langOf(ctx context.Context) string {
	if l, ok := ctx.Value("Language").(lang.Language); ok {
		return l.Code
	}
	return ""
}

func (r *Res) Node(sym string, tpl string, code []byte) *Res {
	r.Nodes[sym] = &Node{Code: code, Tpl: tpl}
	return r
}

func (r *Res) GetTemplate(ctx context.Context, sym string) (string, error) {
	r.Log = append(r.Log, Call{Kind: "template", Sym: sym, Lang: langOf(ctx)})
	n, ok := r.Nodes[sym]
	if !ok {
		return "", fmt.Errorf("no template for %s", sym)
	}
	return n.Tpl, nil
}

func (r *Res) GetCode(ctx context.Context, sym string) ([]byte, error) {
	r.Log = append(r.Log, Call{Kind: "code", Sym: sym, Lang: langOf(ctx)})
	n, ok := r.Nodes[sym]
	if !ok {
		return nil, fmt.Errorf("no code for %s", sym)
	}
	return n.Code, nil
}

func (r *Res) GetMenu(ctx context.Context, sym string) (string, error) {
	r.Log = append(r.Log, Call{Kind: "menu", Sym: sym, Lang: langOf(ctx)})
	if s, ok := r.Menus[sym]; ok {
		return s, nil
	}
	return sym, nil
}

func (r *Res) FuncFor(ctx context.Context, sym string) (resource.EntryFunc, error) {
	r.Log = append(r.Log, Call{Kind: "funcfor", Sym: sym, Lang: langOf(ctx)})
	fn, ok := r.Funcs[sym]
	if !ok {
		return nil, fmt.Errorf("unknown function %s", sym)
	}
	return func(ctx context.Context, s string, input []byte) (resource.Result, error) {
		r.Log = append(r.Log, Call{Kind: "func", Sym: s, Input: string(input), Lang: langOf(ctx)})
		return fn(ctx, s, input)
	}, nil
}

func (r *Res) Close(ctx context.Context) error { return nil }

// CallsOf counts logged external function executions of sym.
func (r *Res) CallsOf(sym string) int {
	n := 0
	for _, c := range r.Log {
		if c.Kind == "func" && c.Sym == sym {
			n++
		}
	}
	return n
}

func (r *Res) FuncCalls() int {
	n := 0
	for _, c := range r.Log {
		if c.Kind == "func" {
			n++
		}
	}
	return n
}

// Static returns an EntryFunc with a fixed result.
func Static(content string) resource.EntryFunc {
	return func(ctx context.Context, sym string, input []byte) (resource.Result, error) {
		return resource.Result{Content: content}, nil
	}
}

// ------------------------------------------------------------------ bytecode

type P struct{ B []byte }

func Code() *P { return &P{} }

func (p *P) Load(sym string, size uint32) *P {
	var sz []byte
	switch {
	case size == 0:
		sz = []byte{0}
	case size < 1<<8:
		sz = []byte{byte(size)}
	case size < 1<<16:
		sz = []byte{byte(size >> 8), byte(size)}
	default:
		sz = []byte{byte(size >> 24), byte(size >> 16), byte(size >> 8), byte(size)}
	}
	p.B = vm.NewLine(p.B, vm.LOAD, []string{sym}, sz, nil)
	return p
}
func (p *P) Reload(sym string) *P { p.B = vm.NewLine(p.B, vm.RELOAD, []string{sym}, nil, nil); return p }
func (p *P) Map(sym string) *P    { p.B = vm.NewLine(p.B, vm.MAP, []string{sym}, nil, nil); return p }
func (p *P) Move(sym string) *P   { p.B = vm.NewLine(p.B, vm.MOVE, []string{sym}, nil, nil); return p }
func (p *P) Halt() *P             { p.B = vm.NewLine(p.B, vm.HALT, nil, nil, nil); return p }
func (p *P) MSink() *P            { p.B = vm.NewLine(p.B, vm.MSINK, nil, nil, nil); return p }
func (p *P) InCmp(target, sel string) *P {
	p.B = vm.NewLine(p.B, vm.INCMP, []string{target, sel}, nil, nil)
	return p
}
func (p *P) MOut(title, sel string) *P {
	p.B = vm.NewLine(p.B, vm.MOUT, []string{title, sel}, nil, nil)
	return p
}
func (p *P) MNext(title, sel string) *P {
	p.B = vm.NewLine(p.B, vm.MNEXT, []string{title, sel}, nil, nil)
	return p
}
func (p *P) MPrev(title, sel string) *P {
	p.B = vm.NewLine(p.B, vm.MPREV, []string{title, sel}, nil, nil)
	return p
}
func flagBytes(flag uint32) []byte {
	return []byte{byte(flag >> 24), byte(flag >> 16), byte(flag >> 8), byte(flag)}
}
func (p *P) Catch(sym string, flag uint32, mode bool) *P {
	m := uint8(0)
	if mode {
		m = 1
	}
	p.B = vm.NewLine(p.B, vm.CATCH, []string{sym}, flagBytes(flag), []uint8{m})
	return p
}
func (p *P) Croak(flag uint32, mode bool) *P {
	m := uint8(0)
	if mode {
		m = 1
	}
	p.B = vm.NewLine(p.B, vm.CROAK, nil, flagBytes(flag), []uint8{m})
	return p
}
func (p *P) Bytes() []byte { return p.B }

// Sink collects engine output.
type Sink struct {
	S string
}

func (s *Sink) Write(b []byte) (int, error)      { s.S += string(b); return len(b), nil }
func (s *Sink) WriteString(x string) (int, error) { s.S += x; return len(x), nil }

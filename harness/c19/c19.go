// Package c19: independent sessions can be served concurrently without
// interference. Schedules are not enumerated: the executor checks, on every
// explored path of two sessions that share only the application data, that
// no store, map update, in-place append or copy ever targets memory
// reachable from the shared data (including the spare capacity of shared
// slices) or a package-level variable of go-vise. Sessions whose write sets
// are disjoint from everything the other can reach are race-free and behave
// as when run alone under every interleaving.
package c19

import (
	"context"

	fsdb "git.defalsify.org/vise.git/db/fs"
	"git.defalsify.org/vise.git/engine"
	"git.defalsify.org/vise.git/persist"
	"git.defalsify.org/vise.git/resource"
	"git.defalsify.org/vise.git/state"
	"vharness/app"
	"vharness/apps"
	"vharness/c07"
	"vharness/vrt"
)

// Shared is the immutable application data: bytecode with spare capacity (as
// a loader that reads files into larger buffers would leave it), templates.
type Shared struct {
	Code map[string][]byte
	Tpl  map[string]string
}

func spare(b []byte) []byte {
	out := make([]byte, len(b), len(b)+32)
	copy(out, b)
	return out
}

func build() *Shared {
	s := &Shared{Code: map[string][]byte{}, Tpl: map[string]string{}}
	add := func(sym, tpl string, code []byte) {
		s.Code[sym] = spare(code)
		s.Tpl[sym] = tpl
	}
	add("root", "root {{.val}}", app.Code().Load("val", 8).Map("val").MOut("down", "1").MOut("flag", "2").Halt().InCmp("deep", "1").InCmp("flagged", "2").Bytes())
	add("deep", "deep", app.Code().MOut("back", "0").MOut("on", "1").Halt().InCmp("_", "0").InCmp("deeper", "1").Bytes())
	add("deeper", "deeper", app.Code().MOut("top", "0").Halt().InCmp("^", "0").Bytes())
	// a CATCH whose target has code of its own, followed by a move
	add("flagged", "flagged", app.Code().Load("raise", 4).Catch("caught", state.FLAG_USERSTART, true).Halt().InCmp("_", "0").Bytes())
	add("caught", "caught", app.Code().Move("landing").Bytes())
	add("landing", "landing", app.Code().MOut("back", "0").Halt().InCmp("^", "0").Bytes())
	add("_catch", "oops", app.Code().MOut("back", "0").Halt().InCmp("_", "*").Bytes())
	return s
}

// sharedFrom extracts the application data of one of the stock applications.
func sharedFrom(rs *app.Res) *Shared {
	s := &Shared{Code: map[string][]byte{}, Tpl: map[string]string{}}
	for sym, n := range rs.Nodes {
		s.Code[sym] = spare(n.Code)
		s.Tpl[sym] = n.Tpl
	}
	return s
}

func resourceOver(s *Shared, which int) *app.Res {
	var rs *app.Res
	if which < 3 {
		rs = apps.Get(which) // its functions; the nodes are replaced below
		rs.Nodes = map[string]*app.Node{}
	} else {
		rs = app.NewRes()
		rs.Funcs["val"] = app.Static("v")
		rs.Funcs["raise"] = func(ctx context.Context, sym string, input []byte) (resource.Result, error) {
			return resource.Result{Content: "r", FlagSet: []uint32{state.FLAG_USERSTART}}, nil
		}
	}
	for sym, code := range s.Code {
		rs.Node(sym, s.Tpl[sym], code)
	}
	return rs
}

// snapshot copies every shared slice over its whole capacity.
func snapshot(s *Shared) map[string][]byte {
	m := map[string][]byte{}
	for sym, c := range s.Code {
		m[sym] = append([]byte{}, c[:cap(c)]...)
	}
	return m
}

func unchanged(v *vrt.Ctx, s *Shared, was map[string][]byte) bool {
	ok := true
	for sym, c := range s.Code {
		full := c[:cap(c)]
		w := was[sym]
		for i := range full {
			ok = v.And(ok, full[i] == w[i])
		}
	}
	return ok
}

// Footprint: two sessions over the same application data, K requests each
// with symbolic inputs.
func Footprint(v *vrt.Ctx) {
	k := v.Param("K")
	ctx := context.Background()
	which := v.Param("app")
	var shared *Shared
	if which < 3 {
		shared = sharedFrom(apps.Get(which))
	} else {
		shared = build()
	}
	was := snapshot(shared)
	v.MarkShared(shared)
	cfg := engine.Config{Root: "root", FlagCount: 4, OutputSize: 80}
	if v.Param("lang") == 1 {
		// a configured language: every session resolves it when it starts
		cfg.Language = "nor"
	}
	enA := engine.NewEngine(cfg, resourceOver(shared, which))
	enB := engine.NewEngine(cfg, resourceOver(shared, which))
	if v.Param("debug") == 1 {
		// state and engine debugging on, each session with a debug writer of
		// its own: the flag-name registry is process-wide and must only be read
		cfg.EngineDebug = true
		mk := func() *engine.DefaultEngine {
			st := state.NewState(cfg.FlagCount)
			st.UseDebug() // (the engine itself only does this with a persister)
			return engine.NewEngine(cfg, resourceOver(shared, which)).WithState(st).WithDebug(engine.NewSimpleDebug(&app.Sink{}))
		}
		enA, enB = mk(), mk()
	}
	// initialise both (package initialisers have run); from here on every
	// write is checked
	v.TrackFootprint(true)
	for i := 0; i < k; i++ {
		var in []byte
		if i > 0 {
			in = c07.ASCII(v, c07.Input(v, 1))
		}
		for _, en := range []*engine.DefaultEngine{enA, enB} {
			cont, err := en.Exec(ctx, in)
			_ = cont
			_ = err
			en.Flush(ctx, &app.Sink{})
		}
		v.Assert(unchanged(v, shared, was), "C19/shared-application-data-unchanged")
	}
	v.TrackFootprint(false)
	v.Cover("C19/history-done")
}

// Validators: two sessions, each with an engine of its own, each registering
// an additional input format through its engine (DefaultEngine.AddValidInput).
// The registry behind it is a package-level map in vm (finding F26): the write
// is a footprint violation, the second engine's registration is refused
// because the first one took the key, and the first engine's format is
// accepted by the second session.
func Validators(v *vrt.Ctx) {
	ctx := context.Background()
	what := v.Param("what")
	shared := sharedFrom(apps.Get(0))
	v.MarkShared(shared)
	cfg := engine.Config{Root: "root", FlagCount: 4, OutputSize: 80}
	enA := engine.NewEngine(cfg, resourceOver(shared, 0))
	enB := engine.NewEngine(cfg, resourceOver(shared, 0))
	v.Finding("F26-input-validators-are-process-wide", true)
	switch what {
	case 0: // the write itself
		v.TrackFootprint(true)
		enA.AddValidInput("^%a$")
		v.TrackFootprint(false)
	case 1: // the second engine cannot register: the first one took the key
		v.Assert(enA.AddValidInput("^%a$") == nil, "C19/engine-registers-its-input-format")
		v.Assert(enB.AddValidInput("^%b$") == nil, "C19/second-engine-registers-its-input-format")
	case 2: // session B never registered "%a": its engine must refuse it
		v.Assert(enA.AddValidInput("^%a$") == nil, "C19/engine-registers-its-input-format")
		enB.Exec(ctx, nil)
		enB.Flush(ctx, &app.Sink{})
		_, err := enB.Exec(ctx, []byte("%a"))
		v.Assert(err != nil, "C19/format-registered-by-one-engine-is-not-accepted-by-another")
	}
	v.Cover("C19/validators")
}

// Files: two persisted sessions, each with a store handle of its own, on one
// data directory of the filesystem backend, served turn by turn. The file
// system is state too: every path that is created, written, renamed or
// removed on behalf of one session must be that session's alone (its record,
// and scratch files no other session's save can name). A scratch file with a
// name both sessions use is shared mutable state that concurrent saves race
// on, although no Go variable is shared.
func Files(v *vrt.Ctx) {
	k := v.Param("K")
	ctx := context.Background()
	dir := v.TempDir()
	serve := func(session string, in []byte) {
		store := fsdb.NewFsDb()
		store.Connect(ctx, dir)
		cfg := engine.Config{Root: "root", FlagCount: 4, SessionId: session, OutputSize: 80}
		en := engine.NewEngine(cfg, apps.Intro()).WithPersister(persist.NewPersister(store))
		v.FsOwner(session)
		if _, err := en.Exec(ctx, in); err == nil {
			en.Flush(ctx, &app.Sink{})
		}
		en.Finish(ctx)
		v.FsOwner("")
	}
	for i := 0; i < k; i++ {
		var in []byte
		if i > 0 {
			in = c07.ASCII(v, c07.Input(v, 1))
		}
		serve("sa", in)
		serve("sb", in)
	}
	v.Cover("C19/files-history-done")
}

var Harnesses = map[string]func(*vrt.Ctx){
	"Files": Files,
	"Validators": Validators,
	"Footprint": Footprint,
}

// Package vrt is the harness runtime. The same harness source runs in two
// ways: under gosymex every method of *Ctx is intercepted and produces
// symbolic values / solver obligations; natively (this file) the methods read
// the solver's model from a value table, so a harness is its own replay test.
package vrt

import (
	"fmt"
	"os"
	"runtime"
	"strings"
)

// Draw is one nondeterministic value in the order the harness asked for it.
type Draw struct {
	Label string `json:"label"`
	Kind  string `json:"kind"`
	W     int    `json:"w"`
	V     uint64 `json:"v"`
}

type Obs struct {
	Name string `json:"name"`
	Val  string `json:"val"`
}

// Failure describes why a native run stopped.
type Failure struct {
	Kind string `json:"kind"` // "assert", "assume", "panic", "draws"
	ID   string `json:"id"`
	Msg  string `json:"msg"`
}

type Ctx struct {
	tmpDirs  []string
	rootDirs []string
	Skipped  string
	Params   map[string]int
	Draws    []Draw
	pos      int
	Obs      []Obs
	Covers   []string
	Classes  []string
	Fail     *Failure
	CrashOK  bool
}

type stop struct{}

// Run executes harness h natively with the given draws and reports how it ended.
func Run(h func(*Ctx), params map[string]int, draws []Draw) (c *Ctx) {
	c = &Ctx{Params: params, Draws: draws}
	if childMode() {
		// strace counts injected system calls per thread: keep the whole
		// harness on one
		runtime.LockOSThread()
	}
	defer func() {
		for _, d := range c.tmpDirs {
			os.RemoveAll(d)
		}
	}()
	defer func() {
		if r := recover(); r != nil {
			if _, ok := r.(stop); ok {
				return
			}
			if c.Fail == nil {
				c.Fail = &Failure{Kind: "panic", ID: "panic", Msg: fmt.Sprint(r)}
			}
		}
	}()
	h(c)
	return c
}

func (c *Ctx) next(label, kind string, w int) uint64 {
	if c.pos >= len(c.Draws) {
		c.Fail = &Failure{Kind: "draws", ID: label, Msg: fmt.Sprintf("draw %d (%s %s) beyond the value table", c.pos, kind, label)}
		panic(stop{})
	}
	d := c.Draws[c.pos]
	if d.Label != label || d.Kind != kind {
		c.Fail = &Failure{Kind: "draws", ID: label, Msg: fmt.Sprintf("draw %d is %s %q in the table but the harness asked for %s %q", c.pos, d.Kind, d.Label, kind, label)}
		panic(stop{})
	}
	c.pos++
	return d.V
}

// Param returns a concrete bound chosen by the check configuration.
func (c *Ctx) Param(name string) int {
	v, ok := c.Params[name]
	if !ok {
		panic("missing harness parameter " + name)
	}
	return v
}

func (c *Ctx) Bool(label string) bool  { return c.next(label, "bool", 0) != 0 }
func (c *Ctx) U8(label string) uint8   { return uint8(c.next(label, "u8", 8)) }
func (c *Ctx) U16(label string) uint16 { return uint16(c.next(label, "u16", 16)) }
func (c *Ctx) U32(label string) uint32 { return uint32(c.next(label, "u32", 32)) }
func (c *Ctx) U64(label string) uint64 { return c.next(label, "u64", 64) }

// Int returns a symbolic int in [lo, hi] (a solver variable, not forked).
func (c *Ctx) Int(label string, lo, hi int) int {
	v := int(int64(c.next(label, "int", 64)))
	if v < lo || v > hi {
		c.Fail = &Failure{Kind: "draws", ID: label, Msg: fmt.Sprintf("value %d outside [%d,%d]", v, lo, hi)}
		panic(stop{})
	}
	return v
}

// Choice returns a value in [0, n) that the explorer forks over (concrete on
// every path).
func (c *Ctx) Choice(label string, n int) int {
	v := int(c.next(label, "choice", 64))
	if v < 0 || v >= n {
		c.Fail = &Failure{Kind: "draws", ID: label, Msg: fmt.Sprintf("choice %d outside [0,%d)", v, n)}
		panic(stop{})
	}
	return v
}

// Bytes returns n symbolic bytes.
func (c *Ctx) Bytes(label string, n int) []byte {
	b := make([]byte, n)
	for i := range b {
		b[i] = byte(c.next(label, "byte", 8))
	}
	return b
}

// Str returns a string of n symbolic bytes.
func (c *Ctx) Str(label string, n int) string { return string(c.Bytes(label, n)) }

// Opaque returns a string of symbolic length in [lo, hi] whose content is
// uninterpreted (natively: the tag byte repeated). The content class excludes
// LF, NUL and '{'.
func (c *Ctx) Opaque(label string, tag byte, lo, hi int) string {
	n := int(c.next(label, "opaque", 64))
	if n < lo || n > hi {
		c.Fail = &Failure{Kind: "draws", ID: label, Msg: fmt.Sprintf("length %d outside [%d,%d]", n, lo, hi)}
		panic(stop{})
	}
	return strings.Repeat(string([]byte{tag}), n)
}

// Assume restricts the inputs considered; natively a failed assumption means
// the value table does not belong to this path.
func (c *Ctx) Assume(cond bool) {
	if !cond {
		c.Fail = &Failure{Kind: "assume", ID: "assume", Msg: "assumption does not hold for these values"}
		panic(stop{})
	}
}

// Assert is the property obligation.
func (c *Ctx) Assert(cond bool, id string) {
	if !cond {
		c.Fail = &Failure{Kind: "assert", ID: id, Msg: "assertion violated"}
		panic(stop{})
	}
}

// Cover marks a point that must be reachable (vacuity guard).
func (c *Ctx) Cover(id string) { c.Covers = append(c.Covers, id) }

// Finding declares that, when cond holds, the path lies in the input class
// of a recorded finding; violations on such paths are reported under that
// class. Returns cond.
func (c *Ctx) Finding(class string, cond bool) bool {
	if cond {
		c.Classes = append(c.Classes, class)
	}
	return cond
}

// Observe records a value; every explored path's witness is re-run natively
// and the observations must agree with the symbolic run.
func (c *Ctx) Observe(name string, val any) {
	c.Obs = append(c.Obs, Obs{Name: name, Val: render(val)})
}

func render(val any) string {
	switch x := val.(type) {
	case string:
		return fmt.Sprintf("%q", x)
	case []byte:
		return fmt.Sprintf("%q", string(x))
	case error:
		if x == nil {
			return "nil"
		}
		return "error"
	case nil:
		return "nil"
	}
	return fmt.Sprint(val)
}

// Try runs f and reports whether it panicked (the panic is swallowed).
func (c *Ctx) Try(f func()) (panicked bool) {
	defer func() {
		if r := recover(); r != nil {
			if _, ok := r.(stop); ok {
				panic(r)
			}
			panicked = true
		}
	}()
	f()
	return false
}

// SetCrashOK: implicit panics of the code under test are not treated as
// obligations of this harness (they propagate as Go panics).
func (c *Ctx) SetCrashOK(ok bool) { c.CrashOK = ok }

// Run-length view of a string: maximal runs of equal bytes.
type RunLen struct {
	Tag byte
	Len int
}

func (c *Ctx) Runs(s string) []RunLen {
	var r []RunLen
	for i := 0; i < len(s); i++ {
		if n := len(r); n > 0 && r[n-1].Tag == s[i] {
			r[n-1].Len++
			continue
		}
		r = append(r, RunLen{Tag: s[i], Len: 1})
	}
	return r
}

// MarkShared declares everything reachable from x as shared immutable
// application data (footprint checking, C19). Natively a no-op.
func (c *Ctx) MarkShared(x any) {}

// TrackFootprint switches write-footprint checking on or off.
func (c *Ctx) TrackFootprint(on bool) {}

// FsOwner names the session on whose behalf the following file-system calls
// are made ("" = nobody). Under the executor a path that is created, written,
// renamed or removed on behalf of two different sessions is a footprint
// violation; natively this is a no-op.
func (c *Ctx) FsOwner(session string) {}

// Or, And, Implies: Boolean connectives that do not short-circuit, so that
// under the symbolic executor a compound condition is one term instead of a
// fork per operand (both operands are always evaluated).
func (c *Ctx) Or(a, b bool) bool      { return a || b }
func (c *Ctx) And(a, b bool) bool     { return a && b }
func (c *Ctx) Implies(a, b bool) bool { return !a || b }

// IteU8 / IteU32 / IteInt: non-forking selection.
func (c *Ctx) IteU8(cond bool, a, b uint8) uint8 {
	if cond {
		return a
	}
	return b
}
func (c *Ctx) IteU32(cond bool, a, b uint32) uint32 {
	if cond {
		return a
	}
	return b
}
func (c *Ctx) IteInt(cond bool, a, b int) int {
	if cond {
		return a
	}
	return b
}

// TempDir returns a directory for file-backed stores: natively a fresh
// temporary directory removed when the run ends; under the symbolic executor
// a directory of the file-system model.
func (c *Ctx) TempDir() string {
	var d string
	if childMode() {
		// a crash child works in its parent's directories
		all := strings.Split(os.Getenv("VRT_CHILD_DIRS"), ",")
		if len(c.rootDirs) >= len(all) {
			panic("crash child: more temporary directories than its parent")
		}
		d = all[len(c.rootDirs)]
	} else {
		var err error
		d, err = os.MkdirTemp("", "vrt-")
		if err != nil {
			panic(err)
		}
		c.tmpDirs = append(c.tmpDirs, d)
	}
	c.rootDirs = append(c.rootDirs, d)
	// nested, so that lexical path traversal by a short key stays inside d
	n := d + "/a/b/c"
	if err := os.MkdirAll(n, 0700); err != nil {
		panic(err)
	}
	return n
}

package vrt

// Native side of CrashWindow: the crash the solver chose is reproduced with
// the real kernel. The harness is re-run in a child process (same binary,
// same value table, same directories) which dies inside the window:
//   kind 2: RLIMIT_FSIZE set to the number of bytes the interrupted write
//           got out, SIGXFSZ left at its default action (a real partial
//           write followed by the death of the process);
//   kind 3: the child runs under strace, which kills it on entering its
//           N-th rename system call;
//   kind 1: the process died before the first step: nothing is run;
//   kind 0: no crash; kind 5: not reproducible natively (reported as skipped).

import (
	"fmt"
	"os"
	"os/signal"
	"strings"
	"syscall"
	"unsafe"
)

// Spawn is set by the replay binary: it re-runs the current job as a crash
// child and reports whether the child was killed by a signal.
var Spawn func(env []string, wrapper []string) (killed bool, err error)

func childMode() bool { return os.Getenv("VRT_CRASH_CHILD") != "" }

func setFsizeFatal(n uint64) {
	// default disposition for SIGXFSZ (the Go runtime would ignore it)
	var act [32]byte
	syscall.RawSyscall6(syscall.SYS_RT_SIGACTION, uintptr(syscall.SIGXFSZ), uintptr(unsafe.Pointer(&act[0])), 0, 8, 0, 0)
	lim := syscall.Rlimit{Cur: n, Max: n}
	syscall.Setrlimit(syscall.RLIMIT_FSIZE, &lim)
}

// CrashWindow runs f; the process may die inside it at a file-system step
// chosen by the value table. Returns whether it died.
func (c *Ctx) CrashWindow(maxSteps int, f func()) bool {
	c.Int("crash-step", 0, maxSteps)
	c.Int("crash-partial", 0, 1<<16)
	kind := c.next("crash-kind", "meta", 64)
	arg := c.next("crash-arg", "meta", 64)
	if childMode() {
		switch kind {
		case 2:
			setFsizeFatal(arg)
			f()
		case 3:
			f() // strace kills this process at the rename
		}
		os.Exit(3) // survived: the crash did not happen
	}
	switch kind {
	case 0:
		f()
		return false
	case 1:
		return true
	case 2, 3:
		if Spawn == nil {
			c.Skipped = "no child spawner"
			panic(stop{})
		}
		// the child replays the whole history in fresh directories of its own
		// and dies there; its directories then take the place of ours
		var childRoots []string
		for range c.rootDirs {
			d, err := os.MkdirTemp("", "vrt-child-")
			if err != nil {
				panic(err)
			}
			childRoots = append(childRoots, d)
			c.tmpDirs = append(c.tmpDirs, d)
		}
		env := []string{"VRT_CRASH_CHILD=1", "VRT_CHILD_DIRS=" + strings.Join(childRoots, ",")}
		var wrapper []string
		if kind == 3 {
			wrapper = []string{"strace", "-f", "-qq", "-o", "/dev/null", "-e", "trace=rename,renameat,renameat2",
				"-e", fmt.Sprintf("inject=rename,renameat,renameat2:signal=KILL:when=%d", arg)}
		}
		killed, err := Spawn(env, wrapper)
		if err != nil || !killed {
			c.Fail = &Failure{Kind: "crash", ID: "crash", Msg: fmt.Sprintf("the crash child was not killed (kind %d arg %d): %v", kind, arg, err)}
			panic(stop{})
		}
		for i, d := range c.rootDirs {
			os.RemoveAll(d)
			if err := os.Rename(childRoots[i], d); err != nil {
				panic(err)
			}
		}
		return true
	}
	c.Skipped = "this crash point is not reproducible with the native mechanisms (see vrt/crash.go)"
	panic(stop{})
}

// WriteFault runs f; when the value table says so, the first write of more
// than 16 bytes inside it gets 16 bytes out and fails (a file size limit with
// SIGXFSZ ignored: the write returns EFBIG, the process lives). Returns
// whether the fault was requested.
func (c *Ctx) WriteFault(f func()) bool {
	on := c.next("write-fault", "bool", 0) != 0
	if !on {
		f()
		return false
	}
	signal.Ignore(syscall.SIGXFSZ)
	var old syscall.Rlimit
	syscall.Getrlimit(syscall.RLIMIT_FSIZE, &old)
	lim := syscall.Rlimit{Cur: 16, Max: old.Max}
	syscall.Setrlimit(syscall.RLIMIT_FSIZE, &lim)
	func() {
		defer func() {
			syscall.Setrlimit(syscall.RLIMIT_FSIZE, &old)
			signal.Reset(syscall.SIGXFSZ)
		}()
		f()
	}()
	return true
}

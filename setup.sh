#!/bin/bash
# Builds the symbolic executor from /verif/symex (offline) and runs its self-test.
set -eu
cd "$(dirname "$0")"
export GOFLAGS=-mod=mod GOPROXY=off GOSUMDB=off GOTOOLCHAIN=local
mkdir -p bin .work evidence replays
(cd symex && go build -o ../bin/gosymex .)
cp /repo/go.sum harness/go.sum
echo "gosymex built"
# interpreter conformance: go-vise driven on concrete inputs through the
# executor, observations compared with the native run
bin/gosymex check -prop CONF -tier quick -no-evidence | tail -2

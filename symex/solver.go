package main

// One long-lived SMT solver process per worker, driven over pipes with
// SMT-LIB2 text. Declarations are global (they survive pop), path constraints
// live inside one push per path, each query is push/assert/check/pop.
// Any "(error" line or "unknown" makes the query inconclusive.

import (
	"bufio"
	"math/bits"
	"fmt"
	"io"
	"os"
	"os/exec"
	"strconv"
	"strings"
	"time"
)

type SatResult int

const (
	Sat SatResult = iota
	Unsat
	Unknown
)

func (r SatResult) String() string { return [...]string{"sat", "unsat", "unknown"}[r] }

type SolverStats struct {
	Queries, Sat, Unsat, Unknown int
	Time                         time.Duration
	MaxQuery                     time.Duration
}

type Solver struct {
	bin        string
	cmd        *exec.Cmd
	in         *bufio.Writer
	out        *bufio.Reader
	defined    map[int]bool
	declared   map[string]bool
	timeoutMs  int
	Stats      SolverStats
	transcript *bufio.Writer
	tfile      *os.File
	depth      int
	since      int // definitions sent since start (restart when large)
	lastErr    string
	seed       int
	// context mirror for the fallback solver
	decls    []string
	asserts  [][]string
	fb       *exec.Cmd
	fbIn     *bufio.Writer
	fbOut    *bufio.Reader
	fbDecls  int
	fbBin    string
	fbMs     int
	FbStats  SolverStats
	quickMs  int
	mode     string // "z3" (default) or "cvc5" as primary
}

func NewSolver(bin string, timeoutMs int, transcriptPath string, mode string, quickMs int, seed int) (*Solver, error) {
	s := &Solver{bin: bin, timeoutMs: timeoutMs, mode: mode, quickMs: quickMs, seed: seed, fbBin: "other", fbMs: timeoutMs}
	if transcriptPath != "" {
		f, err := os.Create(transcriptPath)
		if err != nil {
			return nil, err
		}
		s.tfile = f
		s.transcript = bufio.NewWriter(f)
	}
	if err := s.start(); err != nil {
		return nil, err
	}
	return s, nil
}

func (s *Solver) start() error {
	if s.mode == "cvc5" {
		ms := s.quickMs
		if ms == 0 {
			ms = s.timeoutMs
		}
		s.cmd = exec.Command("cvc5", "--incremental", "--produce-models", "--solve-bv-as-int=sum", fmt.Sprintf("--tlimit-per=%d", ms))
	} else {
		s.cmd = exec.Command(s.bin, "-in")
	}
	w, err := s.cmd.StdinPipe()
	if err != nil {
		return err
	}
	r, err := s.cmd.StdoutPipe()
	if err != nil {
		return err
	}
	s.cmd.Stderr = os.Stderr
	if err := s.cmd.Start(); err != nil {
		return err
	}
	s.in = bufio.NewWriterSize(w, 1<<16)
	s.out = bufio.NewReaderSize(r, 1<<16)
	s.defined = make(map[int]bool)
	s.declared = make(map[string]bool)
	s.depth = 0
	s.since = 0
	s.decls = nil
	s.asserts = [][]string{nil}
	s.closeFallback()
	if s.mode == "cvc5" {
		s.send("(set-logic ALL)")
	}
	s.send("(set-option :global-declarations true)")
	if s.seed != 0 && s.mode != "cvc5" {
		s.send(fmt.Sprintf("(set-option :sat.random_seed %d)", s.seed))
	}
	return nil
}

func (s *Solver) closeFallback() {
	if s.fb != nil {
		s.fb.Process.Kill()
		s.fb.Wait()
		s.fb = nil
	}
}

// fallbackCheck decides the current context (all assertions on the stack,
// extras included) with one-shot solver runs on the flattened query: first
// cvc5 translating bit-vector arithmetic to integer arithmetic modulo 2^k
// (decides wrap-around length arithmetic that bit-blasting does not finish;
// far more reliable non-incrementally than inside a long incremental
// session), then z3's default strategy.
func (s *Solver) fallbackCheck(vars []*Term) (SatResult, Model) {
	start := time.Now()
	defer func() {
		s.FbStats.Queries++
		s.FbStats.Time += time.Since(start)
	}()
	ms := s.fbMs
	if ms == 0 {
		ms = 60000
	}
	var q strings.Builder
	for _, d := range s.decls {
		q.WriteString(d)
		q.WriteByte('\n')
	}
	for _, lvl := range s.asserts {
		for _, a := range lvl {
			q.WriteString(a)
			q.WriteByte('\n')
		}
	}
	var names []string
	for _, v := range vars {
		names = append(names, v.ref())
	}
	getv := ""
	if len(names) > 0 {
		getv = "(get-value (" + strings.Join(names, " ") + "))\n"
	}
	type attempt struct {
		argv   []string
		header string
		check  string
	}
	attempts := []attempt{
		{[]string{"cvc5", "--produce-models", "--solve-bv-as-int=sum", fmt.Sprintf("--tlimit=%d", ms)}, "(set-logic ALL)\n", "(check-sat)\n"},
		{[]string{"z3", "-in", fmt.Sprintf("-T:%d", (ms+999)/1000)}, "", "(check-sat)\n"},
	}
	res := Unknown
	var m Model
	for _, at := range attempts {
		cmd := exec.Command(at.argv[0], at.argv[1:]...)
		cmd.Stdin = strings.NewReader(at.header + q.String() + at.check + getv)
		out, _ := cmd.Output()
		txt := strings.TrimSpace(string(out))
		first := txt
		rest := ""
		if i := strings.IndexByte(txt, '\n'); i >= 0 {
			first, rest = strings.TrimSpace(txt[:i]), strings.TrimSpace(txt[i+1:])
		}
		switch first {
		case "unsat":
			res = Unsat
		case "sat":
			res = Sat
			if len(vars) > 0 {
				if strings.Contains(rest, "(error") {
					res = Unknown
				} else if m = parseModel(rest, vars); m == nil {
					res = Unknown
				}
			}
		default:
			s.lastErr = at.argv[0] + ": " + firstLineOf(txt)
		}
		if res != Unknown {
			break
		}
	}
	switch res {
	case Sat:
		s.FbStats.Sat++
	case Unsat:
		s.FbStats.Unsat++
	default:
		s.FbStats.Unknown++
	}
	return res, m
}

func firstLineOf(s string) string {
	if i := strings.IndexByte(s, '\n'); i >= 0 {
		return s[:i]
	}
	return s
}

func (s *Solver) Close() {
	if s.cmd != nil {
		s.send("(exit)")
		s.in.Flush()
		s.cmd.Process.Kill()
		s.cmd.Wait()
		s.cmd = nil
	}
	s.closeFallback()
	if s.transcript != nil {
		s.transcript.Flush()
		s.tfile.Close()
		s.transcript = nil
	}
}

// Restart discards the solver process (used between paths when it has
// accumulated many definitions). Must be called at depth 0.
func (s *Solver) Restart() error {
	if s.depth != 0 {
		return fmt.Errorf("restart at depth %d", s.depth)
	}
	s.send("(exit)")
	s.in.Flush()
	s.cmd.Process.Kill()
	s.cmd.Wait()
	if s.transcript != nil {
		fmt.Fprintln(s.transcript, "(reset)")
	}
	return s.start()
}

func (s *Solver) sendDecl(line string) {
	s.decls = append(s.decls, line)
	s.send(line)
}

func (s *Solver) send(line string) {
	s.in.WriteString(line)
	s.in.WriteByte('\n')
	if s.transcript != nil {
		s.transcript.WriteString(line)
		s.transcript.WriteByte('\n')
	}
}

// readSexp reads one answer: a bare word line or a balanced s-expression.
func (s *Solver) readSexp() (string, error) {
	s.in.Flush()
	return readSexpFrom(s.out)
}

func readSexpFrom(out *bufio.Reader) (string, error) {
	var sb strings.Builder
	depth := 0
	started := false
	for {
		line, err := out.ReadString('\n')
		if err != nil && line == "" {
			if err == io.EOF {
				return sb.String(), fmt.Errorf("solver closed its output")
			}
			return sb.String(), err
		}
		t := strings.TrimSpace(line)
		if t == "" && !started {
			continue
		}
		started = true
		sb.WriteString(line)
		inStr := false
		for _, c := range line {
			switch {
			case c == '"':
				inStr = !inStr
			case inStr:
			case c == '(':
				depth++
			case c == ')':
				depth--
			}
		}
		if depth <= 0 {
			return strings.TrimSpace(sb.String()), nil
		}
	}
}

func (s *Solver) define(t *Term) {
	switch t.Op {
	case OConst:
		return
	case OVar:
		if !s.declared[t.Name] {
			s.declareVar(t)
		}
		return
	}
	if s.defined[t.id] {
		return
	}
	// iterative post-order to avoid deep recursion
	type fr struct {
		t    *Term
		done bool
	}
	stack := []fr{{t, false}}
	for len(stack) > 0 {
		f := stack[len(stack)-1]
		stack = stack[:len(stack)-1]
		x := f.t
		if x.Op == OConst {
			continue
		}
		if x.Op == OVar {
			if !s.declared[x.Name] {
				s.declareVar(x)
			}
			continue
		}
		if s.defined[x.id] {
			continue
		}
		if f.done {
			s.defined[x.id] = true
			s.since++
			s.sendDecl(fmt.Sprintf("(define-fun t%d () %s %s)", x.id, sortOf(x.W), x.body()))
			continue
		}
		stack = append(stack, fr{x, true})
		for _, c := range x.children() {
			stack = append(stack, fr{c, false})
		}
	}
}

// declareVar declares a variable. A restricted range is built into the
// definition (the raw value is clamped), so the interval the executor relies
// on holds by construction and never depends on a separate assertion.
func (s *Solver) declareVar(t *Term) {
	s.declared[t.Name] = true
	if t.W == 0 || (t.lo == 0 && t.hi == mask(t.W)) {
		s.sendDecl(fmt.Sprintf("(declare-const %s %s)", t.Name, sortOf(t.W)))
		return
	}
	// the raw variable is as narrow as the range allows, clamped into the
	// range if it is not a full power-of-two range, then zero-extended
	raw := t.Name + "_raw"
	nw := uint8(bits.Len64(t.hi))
	if nw == 0 {
		nw = 1
	}
	if nw > t.W {
		nw = t.W
	}
	s.sendDecl(fmt.Sprintf("(declare-const %s %s)", raw, sortOf(nw)))
	inner := raw
	if t.lo != 0 || t.hi != mask(nw) {
		inner = fmt.Sprintf("(ite (and (bvule %s %s) (bvule %s %s)) %s %s)", bvLit(nw, t.lo), raw, raw, bvLit(nw, t.hi), raw, bvLit(nw, t.lo))
	}
	if nw < t.W {
		inner = fmt.Sprintf("((_ zero_extend %d) %s)", t.W-nw, inner)
	}
	s.sendDecl(fmt.Sprintf("(define-fun %s () %s %s)", t.Name, sortOf(t.W), inner))
}

func (s *Solver) Push() {
	s.send("(push)")
	s.depth++
	s.asserts = append(s.asserts, nil)
}

func (s *Solver) Pop() {
	s.send("(pop)")
	s.depth--
	s.asserts = s.asserts[:len(s.asserts)-1]
}

func (s *Solver) Assert(t *Term) {
	if t.IsTrue() {
		return
	}
	s.define(t)
	line := "(assert " + t.ref() + ")"
	if len(s.asserts) == 0 {
		s.asserts = append(s.asserts, nil)
	}
	s.asserts[len(s.asserts)-1] = append(s.asserts[len(s.asserts)-1], line)
	s.send(line)
}

// Check asks whether the current assertions plus extra are satisfiable.
// When sat and vars is non-nil the model for vars is returned.
func (s *Solver) Check(extra []*Term, vars []*Term) (SatResult, Model) {
	start := time.Now()
	for _, e := range extra {
		if e.IsFalse() {
			return Unsat, nil
		}
	}
	s.Push()
	for _, e := range extra {
		s.Assert(e)
	}
	for _, v := range vars {
		s.define(v)
	}
	qms := s.timeoutMs
	if s.quickMs > 0 && s.quickMs < qms {
		qms = s.quickMs
	}
	if s.mode == "cvc5" {
		s.send("(check-sat)")
	} else {
		s.send(fmt.Sprintf("(check-sat-using (try-for qfbv %d))", qms))
	}
	ans, err := s.readSexp()
	res := Unknown
	switch {
	case err != nil:
		s.lastErr = err.Error()
	case ans == "sat":
		res = Sat
	case ans == "unsat":
		res = Unsat
	default:
		s.lastErr = ans
	}
	var m Model
	if res == Unknown && err == nil && s.fbBin != "" {
		res, m = s.fallbackCheck(vars)
		if s.transcript != nil {
			fmt.Fprintf(s.transcript, "; => %s (fallback)\n", res)
		}
		s.Pop()
		d := time.Since(start)
		s.Stats.Queries++
		s.Stats.Time += d
		if d > s.Stats.MaxQuery {
			s.Stats.MaxQuery = d
		}
		switch res {
		case Sat:
			s.Stats.Sat++
		case Unsat:
			s.Stats.Unsat++
		default:
			s.Stats.Unknown++
		}
		return res, m
	}
	if s.transcript != nil {
		fmt.Fprintf(s.transcript, "; => %s\n", res)
	}
	if res == Sat && len(vars) > 0 {
		var names []string
		for _, v := range vars {
			names = append(names, v.ref())
		}
		s.send("(get-value (" + strings.Join(names, " ") + "))")
		txt, err := s.readSexp()
		if err != nil || strings.Contains(txt, "(error") {
			res = Unknown
			s.lastErr = "get-value: " + txt
		} else {
			m = parseModel(txt, vars)
			if m == nil {
				res = Unknown
				s.lastErr = "unparsable model: " + txt
			}
		}
	}
	s.Pop()
	d := time.Since(start)
	s.Stats.Queries++
	s.Stats.Time += d
	if d > s.Stats.MaxQuery {
		s.Stats.MaxQuery = d
	}
	switch res {
	case Sat:
		s.Stats.Sat++
	case Unsat:
		s.Stats.Unsat++
	default:
		s.Stats.Unknown++
	}
	return res, m
}

// parseModel reads "((name value) (name value) ...)" in the order asked.
func parseModel(txt string, vars []*Term) Model {
	m := make(Model)
	toks := tokenize(txt)
	// expect: ( ( name val ) ... ) where val is #x.., #b.., true, false or (_ bvN w)
	i := 0
	next := func() string {
		if i < len(toks) {
			i++
			return toks[i-1]
		}
		return ""
	}
	if next() != "(" {
		return nil
	}
	for _, v := range vars {
		if next() != "(" {
			return nil
		}
		next() // name
		val := next()
		var u uint64
		switch {
		case val == "true":
			u = 1
		case val == "false":
			u = 0
		case strings.HasPrefix(val, "#x"):
			x, err := strconv.ParseUint(val[2:], 16, 64)
			if err != nil {
				return nil
			}
			u = x
		case strings.HasPrefix(val, "#b"):
			x, err := strconv.ParseUint(val[2:], 2, 64)
			if err != nil {
				return nil
			}
			u = x
		case val == "(":
			// (_ bvN w)
			if next() != "_" {
				return nil
			}
			bv := next()
			next() // width
			if next() != ")" {
				return nil
			}
			x, err := strconv.ParseUint(strings.TrimPrefix(bv, "bv"), 10, 64)
			if err != nil {
				return nil
			}
			u = x
		default:
			return nil
		}
		if next() != ")" {
			return nil
		}
		if v.Op == OVar {
			m[v.Name] = u
		} else {
			m[v.ref()] = u
		}
	}
	return m
}

func tokenize(s string) []string {
	var toks []string
	cur := strings.Builder{}
	flush := func() {
		if cur.Len() > 0 {
			toks = append(toks, cur.String())
			cur.Reset()
		}
	}
	for _, c := range s {
		switch c {
		case '(', ')':
			flush()
			toks = append(toks, string(c))
		case ' ', '\n', '\t', '\r':
			flush()
		default:
			cur.WriteRune(c)
		}
	}
	flush()
	return toks
}

package main

// Interpreter values. Integers and Booleans are *Term (possibly constant);
// strings are ropes (*Str is used by value through Str); pointers are Go
// pointers to value slots, so aliasing is inherited from the host.

import (
	"fmt"
	"go/types"
	"strings"

	"golang.org/x/tools/go/ssa"
)

type Value interface{}

type Struct []Value
type Array []Value
type Tuple []Value

type Ptr struct {
	P *Value
	// owner tag for footprint tracking (C19); "" = untracked
	Own *Owner
}

type Owner struct {
	Name string
}

type Slice struct {
	A    []Value
	Nil  bool
	Rope *Str // read-only byte view of a rope with opaque chunks
	Own  *Owner
}

type Iface struct {
	T types.Type
	V Value
}

type Closure struct {
	Fn    *ssa.Function
	Env   []Value
	Host  func(ex *Exec, args []Value) Value // host-implemented function value
	HName string
}

type Poison struct{ Why string }

type Host struct {
	Kind string
	Data interface{}
}

type MapV struct {
	KT, VT types.Type
	keys   []Value
	vals   []Value
	idx    map[string]int
	Own    *Owner
}

func (m *MapV) Len() int { return len(m.keys) }

// hashKey returns a string uniquely identifying a fully concrete key.
func hashKey(v Value) (string, bool) {
	switch x := v.(type) {
	case *Term:
		if x.IsConst() {
			return fmt.Sprintf("i%d:%d", x.W, x.K), true
		}
		return "", false
	case Str:
		s, ok := x.Concrete()
		if !ok {
			return "", false
		}
		return "s" + s, true
	case Iface:
		if x.T == nil {
			return "nil", true
		}
		h, ok := hashKey(x.V)
		return "I" + x.T.String() + "|" + h, ok
	case Ptr:
		return fmt.Sprintf("p%p", x.P), true
	case Struct:
		var sb strings.Builder
		sb.WriteString("S{")
		for _, f := range x {
			h, ok := hashKey(f)
			if !ok {
				return "", false
			}
			fmt.Fprintf(&sb, "%d:%s,", len(h), h)
		}
		return sb.String() + "}", true
	case Array:
		var sb strings.Builder
		sb.WriteString("A{")
		for _, f := range x {
			h, ok := hashKey(f)
			if !ok {
				return "", false
			}
			fmt.Fprintf(&sb, "%d:%s,", len(h), h)
		}
		return sb.String() + "}", true
	case float64:
		return fmt.Sprintf("f%v", x), true
	}
	return "", false
}

func copyVal(v Value) Value {
	switch x := v.(type) {
	case Struct:
		r := make(Struct, len(x))
		for i, f := range x {
			r[i] = copyVal(f)
		}
		return r
	case Array:
		r := make(Array, len(x))
		for i, f := range x {
			r[i] = copyVal(f)
		}
		return r
	}
	return v
}

// storeInto writes v into the slot, element-wise for aggregates so that
// pointers to fields/elements stay valid.
func storeInto(slot *Value, v Value) {
	switch x := v.(type) {
	case Struct:
		if dst, ok := (*slot).(Struct); ok && len(dst) == len(x) {
			for i := range x {
				storeInto(&dst[i], x[i])
			}
			return
		}
		*slot = copyVal(v)
	case Array:
		if dst, ok := (*slot).(Array); ok && len(dst) == len(x) {
			for i := range x {
				storeInto(&dst[i], x[i])
			}
			return
		}
		*slot = copyVal(v)
	default:
		*slot = v
	}
}

func intWidth(b *types.Basic) (w uint8, signed bool, ok bool) {
	switch b.Kind() {
	case types.Bool, types.UntypedBool:
		return 0, false, true
	case types.Int8:
		return 8, true, true
	case types.Int16:
		return 16, true, true
	case types.Int32, types.UntypedRune:
		return 32, true, true
	case types.Int64, types.Int, types.UntypedInt:
		return 64, true, true
	case types.Uint8:
		return 8, false, true
	case types.Uint16:
		return 16, false, true
	case types.Uint32:
		return 32, false, true
	case types.Uint64, types.Uint, types.Uintptr:
		return 64, false, true
	}
	return 0, false, false
}

func isString(t types.Type) bool {
	b, ok := t.Underlying().(*types.Basic)
	return ok && b.Info()&types.IsString != 0
}

func isFloat(t types.Type) bool {
	b, ok := t.Underlying().(*types.Basic)
	return ok && b.Info()&types.IsFloat != 0
}

func isInteger(t types.Type) (uint8, bool, bool) {
	b, ok := t.Underlying().(*types.Basic)
	if !ok {
		return 0, false, false
	}
	if b.Info()&(types.IsInteger|types.IsBoolean) == 0 {
		return 0, false, false
	}
	return intWidth(b)
}

func (ex *Exec) zero(t types.Type) Value {
	switch u := t.Underlying().(type) {
	case *types.Basic:
		if w, _, ok := intWidth(u); ok {
			return ex.ts.Const(w, 0)
		}
		switch {
		case u.Info()&types.IsString != 0:
			return Str{}
		case u.Info()&types.IsFloat != 0:
			return float64(0)
		case u.Kind() == types.UnsafePointer:
			return Ptr{}
		case u.Kind() == types.UntypedNil:
			return Iface{}
		}
		return Poison{"zero of " + t.String()}
	case *types.Pointer:
		return Ptr{}
	case *types.Slice:
		return Slice{Nil: true}
	case *types.Map:
		return (*MapV)(nil)
	case *types.Signature:
		return (*Closure)(nil)
	case *types.Interface:
		return Iface{}
	case *types.Struct:
		s := make(Struct, u.NumFields())
		for i := range s {
			s[i] = ex.zero(u.Field(i).Type())
		}
		return s
	case *types.Array:
		a := make(Array, u.Len())
		for i := range a {
			a[i] = ex.zero(u.Elem())
		}
		return a
	case *types.Chan:
		return Poison{"chan"}
	case *types.Tuple:
		tp := make(Tuple, u.Len())
		for i := range tp {
			tp[i] = ex.zero(u.At(i).Type())
		}
		return tp
	}
	return Poison{"zero of " + t.String()}
}

func isPoison(v Value) (Poison, bool) {
	p, ok := v.(Poison)
	return p, ok
}

// describe renders a value for reports.
func describe(v Value) string {
	switch x := v.(type) {
	case *Term:
		if x.IsConst() {
			if x.W == 0 {
				return fmt.Sprint(x.K == 1)
			}
			return fmt.Sprint(x.K)
		}
		return "<sym:" + x.ref() + ">"
	case Str:
		return x.Describe()
	case Iface:
		if x.T == nil {
			return "nil"
		}
		return x.T.String() + "(" + describe(x.V) + ")"
	case Poison:
		return "<poison: " + x.Why + ">"
	case Ptr:
		if x.P == nil {
			return "nil"
		}
		return fmt.Sprintf("&%s", describe(*x.P))
	case Struct:
		var parts []string
		for _, f := range x {
			parts = append(parts, describe(f))
		}
		return "{" + strings.Join(parts, " ") + "}"
	case Slice:
		if x.Rope != nil {
			return "[]byte(" + x.Rope.Describe() + ")"
		}
		var parts []string
		for i, f := range x.A {
			if i > 32 {
				parts = append(parts, "...")
				break
			}
			parts = append(parts, describe(f))
		}
		return "[" + strings.Join(parts, " ") + "]"
	}
	return fmt.Sprintf("%T", v)
}

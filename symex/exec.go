package main

// Path exploration: decision-prefix re-execution with solver feasibility
// checks at symbolic branches, obligations, witnesses.

import (
	"fmt"
	"os"
	"runtime"
	"go/token"
	"sort"
	"strings"
	"sync"
	"time"

	"golang.org/x/tools/go/ssa"
)

type endKind int

const (
	endDone endKind = iota
	endInfeasible
	endViolated     // every continuation of this path violates an obligation
	endInconclusive // unsupported construct / solver unknown / budget
	endCrash        // uncaught Go panic in interpreted code (already recorded)
)

type pathEnd struct {
	kind endKind
	msg  string
}

type goPanic struct {
	v    Value
	what string
	pos  token.Pos
}

type DrawRec struct {
	Label string `json:"label"`
	Kind  string `json:"kind"`
	W     int    `json:"w"`
	T     *Term  `json:"-"`
	V     uint64 `json:"v"`
}

type ObsRec struct {
	Name string
	Val  Value
}

type Violation struct {
	ID       string   // obligation id ("C09/limit", "panic: index out of range", ...)
	Pos      string   // source position
	Classes  []string // finding classes the path belongs to
	Draws    []DrawRec
	Harness  string
	Params   map[string]int
	Definite bool
	Trail    []string
	MapOrder int
	Key      string // obligation site + classes: counterexamples with the same key are alternatives
}

type PathSummary struct {
	Decisions int
	End       endKind
	Msg       string
	Steps     int
	Draws     []DrawRec
	Obs       []ObsEval
	Covers    []string
	Classes   []string
	Outcome   string
}

type ObsEval struct {
	Name string `json:"name"`
	Val  string `json:"val"`
}

// HarnessRun is one exploration job: a harness function with parameters.
type HarnessRun struct {
	Name     string
	Fn       *ssa.Function
	Params   map[string]int
	MapOrder int // 0 insertion order, 1 reverse
	MaxSteps int
	MaxPaths int
}

type Explorer struct {
	P        *Program
	Run      *HarnessRun
	SolverBin string
	TimeoutMs int
	Workers  int
	Transcripts string
	Seed      int
	QuickMs   int
	SolverMode string
	// IsKnown says whether a set of finding classes belongs to a listed known
	// finding; a harness run stops early once it holds enough counterexamples
	// outside every known finding (there is nothing more to decide), and at
	// Deadline (reported as a reduced bound, never as success)
	IsKnown  func(classes []string) bool
	Deadline time.Time

	mu        sync.Mutex
	work      [][]Dec
	active    int
	cond      *sync.Cond
	paths     []PathSummary
	viol      map[string][]*Violation
	inconcl   []string
	nPaths    int
	newViol   int // counterexamples outside every known finding
	stop      bool
	funcSteps map[string]int
	covers    map[string]int
	asserts   map[string]int
	stats     SolverStats
	fbStats   SolverStats
	decisions int
	stubs     map[string]int
	witnessEvery int
}

type Worker struct {
	E      *Explorer
	ts     *TermStore
	solver *Solver
	id     int
}

// Exec is the state of one path execution.
type Exec struct {
	partial []string // places where only one instance of a symbolic value was explored
	W         *Worker
	P         *Program
	ts        *TermStore
	prefix    []Dec
	pos       int
	decisions []Dec
	pc        []*Term
	draws     []DrawRec
	obs       []ObsRec
	covers    []string
	classes   []string
	chunkID   int
	tryDepth  int
	steps     int
	maxSteps  int
	globals   map[*ssa.Global]*Value
	initDone  map[*ssa.Package]bool
	params    map[string]int
	mapOrder  int
	funcSteps map[*ssa.Function]int
	crashOK   bool // implicit panics are not obligations (harness opted out)
	curPos    token.Pos
	curFn     *ssa.Function
	depth     int
	trail     []string
	hostState map[string]interface{}
	asserts   map[string]int
	stubs     map[string]int
	shared    map[*Value]string
	trackFoot bool
	inInit    int
	known     map[*Term]bool
	model     Model // a model of the current path condition, or nil
	auxVars   []*Term
	pendingHash uint64
	leftPrefix  bool
}

func (ex *Exec) end(kind endKind, format string, args ...interface{}) {
	panic(&pathEnd{kind: kind, msg: fmt.Sprintf(format, args...)})
}

func (ex *Exec) unsupported(format string, args ...interface{}) {
	where := ""
	if ex.curFn != nil {
		where = " in " + ex.curFn.String() + " at " + ex.P.pos(ex.curPos)
	}
	ex.end(endInconclusive, "unsupported: "+fmt.Sprintf(format, args...)+where)
}

func (ex *Exec) inPrefix() bool { return ex.pos < len(ex.prefix) }

func (ex *Exec) take(c *Term, d bool) {
	k := uint8(decFalse)
	h := c.SHash()
	if ex.inPrefix() && ex.prefix[ex.pos].H != h {
		ex.end(endInconclusive, "replay diverged from the recorded decision prefix at decision %d (internal error)", ex.pos)
	}
	if !d {
		c = ex.ts.BNot(c)
	} else {
		k = decTrue
	}
	ex.W.solver.Assert(c)
	ex.pc = append(ex.pc, c)
	ex.learn(c)
	ex.keepModel(c)
	ex.decisions = append(ex.decisions, Dec{K: k, H: h})
	ex.pos++
}

// leavePrefix runs once per path when the recorded prefix has been replayed:
// the replayed path condition must be satisfiable (it was when the prefix was
// enqueued); the model found also seeds the model cache.
func (ex *Exec) leavePrefix() {
	if ex.leftPrefix {
		return
	}
	ex.leftPrefix = true
	if len(ex.prefix) == 0 || ex.model != nil {
		return
	}
	r, m := ex.check(nil, true)
	if r == Unsat {
		ex.end(endInconclusive, "replayed decision prefix is infeasible (internal error)")
	}
	ex.model = m
}

// addConj adds a conjunct to the path condition (solver, literal cache,
// cached model) - the same way whether it is replayed or new.
func (ex *Exec) addConj(c *Term) {
	ex.W.solver.Assert(c)
	ex.pc = append(ex.pc, c)
	ex.learn(c)
	ex.keepModel(c)
}

// keepModel drops the cached model unless it satisfies the new conjunct.
func (ex *Exec) keepModel(c *Term) {
	if ex.model != nil && c.Eval(ex.model, map[*Term]uint64{}) == 0 {
		ex.model = nil
	}
}

// holdsInModel evaluates c under the cached model of the path condition.
func (ex *Exec) holdsInModel(c *Term) (val bool, ok bool) {
	if ex.model == nil {
		return false, false
	}
	return c.Eval(ex.model, map[*Term]uint64{}) != 0, true
}

// learn records literals that are now part of the path condition, so that a
// repeated test of the same condition is decided without a query.
func (ex *Exec) learn(c *Term) {
	switch c.Op {
	case OBNot:
		ex.known[c.A] = false
		if c.A.Op == OBOr {
			ex.learn(ex.ts.BNot(c.A.A))
			ex.learn(ex.ts.BNot(c.A.B))
		}
	case OBAnd:
		ex.known[c] = true
		ex.learn(c.A)
		ex.learn(c.B)
	default:
		ex.known[c] = true
	}
}

// knownValue decides c from recorded literals (definite answers only).
func (ex *Exec) knownValue(c *Term) (bool, bool) {
	if v, ok := ex.known[c]; ok {
		return v, true
	}
	switch c.Op {
	case OBNot:
		if v, ok := ex.knownValue(c.A); ok {
			return !v, true
		}
	case OBAnd:
		a, oka := ex.knownValue(c.A)
		b, okb := ex.knownValue(c.B)
		if oka && okb {
			return a && b, true
		}
		if (oka && !a) || (okb && !b) {
			return false, true
		}
	case OBOr:
		a, oka := ex.knownValue(c.A)
		b, okb := ex.knownValue(c.B)
		if oka && okb {
			return a || b, true
		}
		if (oka && a) || (okb && b) {
			return true, true
		}
	}
	return false, false
}

// Dec is one recorded decision of a path: a branch outcome, or a step of a
// concretisation (value chosen / value excluded).
type Dec struct {
	K uint8
	V uint64
	H uint64 // structural hash of the condition (replay alignment check)
}

const (
	decFalse = iota
	decTrue
	decEq
	decNe
)

func (ex *Exec) prefixBool() bool {
	d := ex.prefix[ex.pos]
	if d.K > decTrue {
		panic("decision prefix out of step (expected a branch)")
	}
	return d.K == decTrue
}

func (ex *Exec) check(extra *Term, wantModel bool) (SatResult, Model) {
	var vars []*Term
	for _, d := range ex.draws {
		vars = append(vars, d.T)
	}
	vars = append(vars, ex.auxVars...)
	var ex1 []*Term
	if extra != nil {
		ex1 = []*Term{extra}
	}
	r, m := ex.W.solver.Check(ex1, vars)
	if r == Unknown {
		ex.end(endInconclusive, "solver answered unknown/error: %s", ex.W.solver.lastErr)
	}
	return r, m
}

// branch decides a symbolic condition on this path, forking when both
// outcomes are feasible.
func (ex *Exec) branch(c *Term) bool {
	if c.IsTrue() {
		return true
	}
	if c.IsFalse() {
		return false
	}
	if c.W != 0 {
		panic("branch on non-Boolean term")
	}
	if v, ok := ex.knownValue(c); ok {
		return v
	}
	if ex.inPrefix() {
		d := ex.prefixBool()
		ex.take(c, d)
		return d
	}
	ex.leavePrefix()
	ex.pendingHash = c.SHash()
	// one side may already be witnessed by the cached model of pc
	if mv, ok := ex.holdsInModel(c); ok {
		other := c
		if mv {
			other = ex.ts.BNot(c)
		}
		ro, mo := ex.check(other, true)
		if ro == Unsat {
			ex.take(c, mv)
			return mv
		}
		ex.forkFalse()
		if !mv {
			ex.model = mo
		}
		ex.take(c, true)
		return true
	}
	rt, mt := ex.check(c, true)
	if rt == Unsat {
		if os.Getenv("GOSYMEX_PARANOID") != "" {
			if r0, _ := ex.check(nil, false); r0 == Unsat {
				ex.end(endInconclusive, "path condition is unsatisfiable at a branch (inconsistent solver answers)")
			}
		}
		ex.take(c, false)
		return false
	}
	rf, _ := ex.check(ex.ts.BNot(c), false)
	if rf == Unsat {
		ex.model = mt
		ex.take(c, true)
		return true
	}
	ex.forkFalse()
	ex.model = mt
	ex.take(c, true)
	return true
}

func (ex *Exec) forkFalse() {
	// pendingHash is set by branch before forking
	other := make([]Dec, len(ex.decisions)+1)
	copy(other, ex.decisions)
	other[len(ex.decisions)] = Dec{K: decFalse, H: ex.pendingHash}
	ex.W.E.enqueue(other)
}

// assume restricts the path; an infeasible assumption ends it silently.
func (ex *Exec) assume(c *Term) {
	if c.IsTrue() {
		return
	}
	if c.IsFalse() {
		ex.end(endInfeasible, "assumption false at %s", ex.P.pos(ex.curPos))
	}
	if v, ok := ex.knownValue(c); ok && v {
		return
	}
	ex.W.solver.Assert(c)
	ex.pc = append(ex.pc, c)
	ex.learn(c)
	ex.keepModel(c)
	if ex.inPrefix() || ex.model != nil {
		return
	}
	ex.leftPrefix = true
	r, m := ex.check(nil, true)
	if r == Unsat {
		ex.end(endInfeasible, "assumption infeasible")
	}
	ex.model = m
}

func (ex *Exec) modelDraws(m Model) []DrawRec {
	out := make([]DrawRec, len(ex.draws))
	for i, d := range ex.draws {
		out[i] = d
		out[i].V = d.T.Eval(m, map[*Term]uint64{})
	}
	return out
}

// shrunkModel looks for a model of pc ∧ extra with small lengths/integers
// (readable replays, small native allocations); falls back to any model.
func (ex *Exec) shrunkModel(extra *Term, any Model) Model {
	ts := ex.ts
	var big []*Term
	for _, d := range ex.draws {
		switch d.Kind {
		case "opaque", "int", "u32", "u64", "fmt":
			if d.T.hi > 16 {
				big = append(big, d.T)
			}
		}
	}
	if len(big) == 0 {
		return any
	}
	var vars []*Term
	for _, d := range ex.draws {
		vars = append(vars, d.T)
	}
	vars = append(vars, ex.auxVars...)
	curMax := uint64(0)
	if any != nil {
		memo := map[*Term]uint64{}
		for _, t := range big {
			if v := t.Eval(any, memo); v > curMax {
				curMax = v
			}
		}
	} else {
		curMax = ^uint64(0)
	}
	for _, B := range []uint64{16, 256, 4096, 1 << 17} {
		if curMax <= B {
			break
		}
		c := ts.True()
		for _, t := range big {
			c = ts.And(c, ts.Ule(t, ts.Const(t.W, B)))
		}
		q := []*Term{c}
		if extra != nil {
			q = append(q, extra)
		}
		if r, m := ex.W.solver.Check(q, vars); r == Sat && m != nil {
			return m
		}
	}
	return any
}

// oblige records a violation when ¬c is satisfiable and continues on c.
func (ex *Exec) oblige(c *Term, id string) {
	ex.asserts[id]++
	if c.IsTrue() {
		return
	}
	if v, ok := ex.knownValue(c); ok && v {
		return
	}
	if ex.inPrefix() {
		d := ex.prefixBool()
		ex.take(c, d)
		return
	}
	ex.leavePrefix()
	if c.IsFalse() {
		_, m := ex.check(nil, true)
		ex.recordViolation(id, ex.shrunkModel(nil, m), true)
		ex.end(endViolated, "obligation %s violated on every input of this path", id)
	}
	mv, haveModel := ex.holdsInModel(c)
	violable := false
	if haveModel && !mv {
		// the cached model of pc is itself a counterexample
		ex.recordViolation(id, ex.shrunkModel(ex.ts.BNot(c), ex.model), false)
		violable = true
	} else {
		r, m := ex.check(ex.ts.BNot(c), true)
		if r == Sat {
			ex.recordViolation(id, ex.shrunkModel(ex.ts.BNot(c), m), false)
			violable = true
		}
	}
	if !(haveModel && mv) {
		r2, m2 := ex.check(c, true)
		if r2 == Unsat {
			if !violable {
				ex.end(endInconclusive, "path condition is unsatisfiable at obligation %s (inconsistent solver answers)", id)
			}
			ex.end(endViolated, "obligation %s violated on every input of this path", id)
		}
		ex.model = m2
	}
	ex.take(c, true)
}

func (ex *Exec) recordViolation(id string, m Model, definite bool) {
	v := &Violation{
		ID:       id,
		Pos:      ex.P.pos(ex.curPos),
		Classes:  append([]string{}, ex.classes...),
		Draws:    ex.modelDraws(m),
		Harness:  ex.W.E.Run.Name,
		Params:   ex.params,
		Definite: definite,
		MapOrder: ex.mapOrder,
	}
	if n := len(ex.trail); n > 0 {
		lo := n - 12
		if lo < 0 {
			lo = 0
		}
		v.Trail = append([]string{}, ex.trail[lo:]...)
	}
	sort.Strings(v.Classes)
	key := id + "|" + v.Pos + "|" + strings.Join(v.Classes, ",")
	v.Key = key
	E := ex.W.E
	E.mu.Lock()
	// up to 8 counterexamples per site: the first that reproduces natively is
	// the one reported (a model can sit in a corner where an abstraction of
	// the executor, e.g. the structural CBOR snapshot, is stricter than the
	// real bytes)
	if len(E.viol[key]) < 8 {
		E.viol[key] = append(E.viol[key], v)
	}
	if E.IsKnown != nil && !E.IsKnown(v.Classes) {
		E.newViol++
		if E.newViol >= 24 && !E.stop {
			E.inconcl = append(E.inconcl, "stopped early: 24 counterexamples outside the known findings collected")
			E.stop = true
			E.cond.Broadcast()
		}
	}
	E.mu.Unlock()
}

// mustHold is an implicit (crash-freedom) condition: index in range, non-nil
// dereference, etc. Inside Try scopes, or when the harness opted out, the
// failing side raises an interpreted Go panic instead.
func (ex *Exec) mustHold(c *Term, what string) {
	if c.IsTrue() {
		return
	}
	if ex.tryDepth > 0 || ex.crashOK {
		if !ex.branch(c) {
			panic(&goPanic{v: Iface{T: ex.P.runtimeErrorType(), V: ex.strLit(what)}, what: what, pos: ex.curPos})
		}
		return
	}
	ex.oblige(c, "panic: "+what)
}

// concretize returns the concrete value of t on this path, forking over the
// feasible values in [lo, hi] (the caller has established that range). The
// candidate values come from solver models: value v is taken on this path and
// the alternative "t != v" is enqueued, so the cost is two queries per
// feasible value whatever the size of the range.
func (ex *Exec) concretize(t *Term, lo, hi uint64) uint64 {
	if t.IsConst() {
		return t.K
	}
	ts := ex.ts
	if t.lo > lo {
		lo = t.lo
	}
	if t.hi < hi {
		hi = t.hi
	}
	if hi < lo {
		ex.end(endInfeasible, "empty range in concretize")
	}
	if lo == hi {
		ex.assume(ts.Eq(t, ts.Const(t.W, lo)))
		return lo
	}
	for {
		if ex.inPrefix() {
			d := ex.prefix[ex.pos]
			if d.H != t.SHash() {
				ex.end(endInconclusive, "replay diverged from the recorded decision prefix at concretisation %d (internal error)", ex.pos)
			}
			switch d.K {
			case decEq:
				ex.addConj(ts.Eq(t, ts.Const(t.W, d.V)))
				ex.decisions = append(ex.decisions, d)
				ex.pos++
				return d.V
			case decNe:
				ex.addConj(ts.BNot(ts.Eq(t, ts.Const(t.W, d.V))))
				ex.decisions = append(ex.decisions, d)
				ex.pos++
				continue
			}
			panic("decision prefix out of step (expected a concretisation)")
		}
		ex.leavePrefix()
		if ex.model == nil {
			r, m := ex.check(nil, true)
			if r == Unsat {
				ex.end(endInfeasible, "no value left in concretize")
			}
			ex.model = m
		}
		v := t.Eval(ex.model, map[*Term]uint64{})
		eq := ts.Eq(t, ts.Const(t.W, v))
		if r2, _ := ex.check(ts.BNot(eq), false); r2 == Sat {
			other := make([]Dec, len(ex.decisions)+1)
			copy(other, ex.decisions)
			other[len(ex.decisions)] = Dec{K: decNe, V: v, H: t.SHash()}
			ex.W.E.enqueue(other)
		}
		ex.addConj(eq)
		ex.decisions = append(ex.decisions, Dec{K: decEq, V: v, H: t.SHash()})
		ex.pos++
		return v
	}
}

// concretizeOne fixes t to one feasible value and does NOT explore the others:
// what follows on this path is one instance, not every input. The path is
// marked partial; a check that met such a path without finding a violation
// reports INCONCLUSIVE, never PASS.
func (ex *Exec) concretizeOne(t *Term, why string) uint64 {
	if t.IsConst() {
		return t.K
	}
	ts := ex.ts
	if len(ex.partial) < 4 {
		ex.partial = append(ex.partial, why)
	}
	if ex.inPrefix() {
		d := ex.prefix[ex.pos]
		if d.K != decEq || d.H != t.SHash() {
			ex.end(endInconclusive, "replay diverged from the recorded decision prefix at one-instance concretisation %d (internal error)", ex.pos)
		}
		ex.addConj(ts.Eq(t, ts.Const(t.W, d.V)))
		ex.decisions = append(ex.decisions, d)
		ex.pos++
		return d.V
	}
	ex.leavePrefix()
	if ex.model == nil {
		r, m := ex.check(nil, true)
		if r == Unsat {
			ex.end(endInfeasible, "no value left in concretize")
		}
		ex.model = m
	}
	v := t.Eval(ex.model, map[*Term]uint64{})
	ex.addConj(ts.Eq(t, ts.Const(t.W, v)))
	ex.decisions = append(ex.decisions, Dec{K: decEq, V: v, H: t.SHash()})
	ex.pos++
	return v
}

// ---------------------------------------------------------------- exploration

func (E *Explorer) enqueue(p []Dec) {
	E.mu.Lock()
	E.work = append(E.work, p)
	E.mu.Unlock()
	E.cond.Signal()
}

func (E *Explorer) next() ([]Dec, bool) {
	E.mu.Lock()
	defer E.mu.Unlock()
	for {
		if E.stop {
			return nil, false
		}
		if n := len(E.work); n > 0 {
			p := E.work[n-1]
			E.work = E.work[:n-1]
			E.active++
			return p, true
		}
		if E.active == 0 {
			E.cond.Broadcast()
			return nil, false
		}
		E.cond.Wait()
	}
}

func (E *Explorer) done() {
	E.mu.Lock()
	E.active--
	if E.active == 0 && len(E.work) == 0 {
		E.cond.Broadcast()
	}
	E.mu.Unlock()
}

type ExploreResult struct {
	Paths      []PathSummary
	Violations []*Violation
	Inconcl    []string
	Stats      SolverStats
	FuncSteps  map[string]int
	Covers     map[string]int
	Asserts    map[string]int
	Decisions  int
	Wall       time.Duration
	Stubs      map[string]int
	Fallback   SolverStats
}

func (E *Explorer) Explore() *ExploreResult {
	start := time.Now()
	E.cond = sync.NewCond(&E.mu)
	E.viol = make(map[string][]*Violation)
	E.funcSteps = make(map[string]int)
	E.covers = make(map[string]int)
	E.asserts = make(map[string]int)
	E.stubs = make(map[string]int)
	E.work = [][]Dec{{}}
	var wg sync.WaitGroup
	nw := E.Workers
	if nw < 1 {
		nw = 1
	}
	for i := 0; i < nw; i++ {
		wg.Add(1)
		go func(id int) {
			defer wg.Done()
			tp := ""
			if E.Transcripts != "" {
				tp = fmt.Sprintf("%s.%d.smt2", E.Transcripts, id)
			}
			s, err := NewSolver(E.SolverBin, E.TimeoutMs, tp, E.SolverMode, E.QuickMs, E.Seed)
			if err != nil {
				E.mu.Lock()
				E.inconcl = append(E.inconcl, "cannot start solver: "+err.Error())
				E.stop = true
				E.mu.Unlock()
				E.cond.Broadcast()
				return
			}
			w := &Worker{E: E, ts: NewTermStore(), solver: s, id: id}
			defer func() {
				E.mu.Lock()
				E.stats.Queries += s.Stats.Queries
				E.stats.Sat += s.Stats.Sat
				E.stats.Unsat += s.Stats.Unsat
				E.stats.Unknown += s.Stats.Unknown
				E.stats.Time += s.Stats.Time
				E.fbStats.Queries += s.FbStats.Queries
				E.fbStats.Sat += s.FbStats.Sat
				E.fbStats.Unsat += s.FbStats.Unsat
				E.fbStats.Unknown += s.FbStats.Unknown
				E.fbStats.Time += s.FbStats.Time
				if s.Stats.MaxQuery > E.stats.MaxQuery {
					E.stats.MaxQuery = s.Stats.MaxQuery
				}
				E.mu.Unlock()
				s.Close()
			}()
			for {
				p, ok := E.next()
				if !ok {
					return
				}
				w.runPath(p)
				E.done()
				if s.since > 20000 {
					s.Restart()
				}
			}
		}(i)
	}
	wg.Wait()
	res := &ExploreResult{Paths: E.paths, Inconcl: E.inconcl, Stats: E.stats, FuncSteps: E.funcSteps,
		Covers: E.covers, Asserts: E.asserts, Decisions: E.decisions, Wall: time.Since(start), Stubs: E.stubs, Fallback: E.fbStats}
	var keys []string
	for k := range E.viol {
		keys = append(keys, k)
	}
	sort.Strings(keys)
	for _, k := range keys {
		res.Violations = append(res.Violations, E.viol[k]...)
	}
	return res
}

func (w *Worker) runPath(prefix []Dec) {
	E := w.E
	ex := &Exec{
		W: w, P: E.P, ts: w.ts, prefix: prefix,
		globals:   make(map[*ssa.Global]*Value),
		initDone:  make(map[*ssa.Package]bool),
		params:    E.Run.Params,
		mapOrder:  E.Run.MapOrder,
		maxSteps:  E.Run.MaxSteps,
		funcSteps: make(map[*ssa.Function]int),
		hostState: make(map[string]interface{}),
		asserts:   make(map[string]int),
		stubs:     make(map[string]int),
		known:     make(map[*Term]bool),
	}
	if ex.maxSteps == 0 {
		ex.maxSteps = 20_000_000
	}
	w.solver.Push()
	sum := PathSummary{}
	func() {
		defer func() {
			r := recover()
			switch e := r.(type) {
			case nil:
				sum.End = endDone
			case *pathEnd:
				sum.End, sum.Msg = e.kind, e.msg
			case *goPanic:
				// uncaught interpreted panic: a crash of the code under test
				sum.End, sum.Msg = endCrash, "uncaught panic: "+e.what
			default:
				buf := make([]byte, 4096)
				buf = buf[:runtime.Stack(buf, false)]
				sum.End, sum.Msg = endInconclusive, fmt.Sprintf("interpreter error: %v at %s\n%s", r, ex.where(), buf)
			}
		}()
		ex.runHarness(E.Run.Fn)
	}()
	// witness for completed paths
	if sum.End == endDone || sum.End == endCrash {
		func() {
			defer func() {
				if r := recover(); r != nil {
					if e, ok := r.(*pathEnd); ok {
						sum.End, sum.Msg = e.kind, e.msg
						return
					}
					panic(r)
				}
			}()
			m := ex.model
			if m == nil {
				_, m = ex.check(nil, true)
			}
			if m == nil {
				m = Model{}
			}
			m = ex.shrunkModel(nil, m)
			sum.Draws = ex.modelDraws(m)
			memo := map[*Term]uint64{}
			for _, o := range ex.obs {
				sum.Obs = append(sum.Obs, ObsEval{Name: o.Name, Val: ex.evalObs(o.Val, m, memo)})
			}
		}()
	}
	w.solver.Pop()
	sum.Decisions = len(ex.decisions)
	sum.Steps = ex.steps
	sum.Covers = ex.covers
	sum.Classes = ex.classes
	E.mu.Lock()
	E.nPaths++
	E.decisions += len(ex.decisions) - len(prefix)
	if sum.End != endInconclusive && sum.End != endInfeasible && len(E.inconcl) < 50 {
		for _, p := range ex.partial {
			E.inconcl = append(E.inconcl, "only one instance explored: "+p)
		}
	}
	if sum.End == endInconclusive {
		if len(E.inconcl) < 50 {
			E.inconcl = append(E.inconcl, sum.Msg)
		}
	}
	for f, n := range ex.funcSteps {
		E.funcSteps[f.String()] += n
	}
	for _, c := range ex.covers {
		E.covers[c]++
	}
	for a, n := range ex.asserts {
		E.asserts[a] += n
	}
	for a, n := range ex.stubs {
		E.stubs[a] += n
	}
	E.paths = append(E.paths, sum)
	if !E.Deadline.IsZero() && time.Now().After(E.Deadline) && !E.stop && (len(E.work) > 0 || E.active > 1) {
		E.inconcl = append(E.inconcl, fmt.Sprintf("time budget exceeded after %d paths (reduced bound)", E.nPaths))
		E.stop = true
		E.cond.Broadcast()
	}
	if E.Run.MaxPaths > 0 && E.nPaths >= E.Run.MaxPaths && (len(E.work) > 0 || E.active > 1) {
		E.inconcl = append(E.inconcl, fmt.Sprintf("path budget %d exceeded", E.Run.MaxPaths))
		E.stop = true
		E.cond.Broadcast()
	}
	E.mu.Unlock()
}

// evalObs renders an observed value under a model, in the same textual form
// the native runtime uses.
func (ex *Exec) evalObs(v Value, m Model, memo map[*Term]uint64) string {
	switch x := v.(type) {
	case *Term:
		u := x.Eval(m, memo)
		if x.W == 0 {
			return fmt.Sprint(u == 1)
		}
		return fmt.Sprint(u)
	case Str:
		var sb strings.Builder
		for _, g := range x.Segs {
			if g.opaque() {
				n := g.Len.Eval(m, memo)
				if n > 1<<20 {
					fmt.Fprintf(&sb, "<%c*%d>", g.Tag, n)
				} else {
					sb.WriteString(strings.Repeat(string(rune(g.Tag)), int(n)))
				}
				continue
			}
			for _, b := range g.B {
				sb.WriteByte(byte(b.Eval(m, memo)))
			}
		}
		return fmt.Sprintf("%q", sb.String())
	case Slice:
		if x.Rope != nil {
			return ex.evalObs(*x.Rope, m, memo)
		}
		allBytes := true
		for _, e := range x.A {
			if t, ok := e.(*Term); !ok || t.W != 8 {
				allBytes = false
			}
		}
		if allBytes {
			var sb strings.Builder
			for _, e := range x.A {
				sb.WriteByte(byte(e.(*Term).Eval(m, memo)))
			}
			return fmt.Sprintf("%q", sb.String())
		}
		var parts []string
		for _, e := range x.A {
			parts = append(parts, ex.evalObs(e, m, memo))
		}
		return "[" + strings.Join(parts, " ") + "]"
	case Iface:
		if x.T == nil {
			return "nil"
		}
		return ex.evalObs(x.V, m, memo)
	case obsWord:
		return string(x)
	}
	return describe(v)
}

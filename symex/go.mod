module gosymex

go 1.23

require (
	github.com/barbashov/iso639-3 v0.0.0-20211020172741-1f4ffb2d8d1c
	golang.org/x/tools v0.29.0
)

require (
	golang.org/x/mod v0.22.0 // indirect
	golang.org/x/sync v0.10.0 // indirect
)

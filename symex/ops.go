package main

import (
	"fmt"
	"go/token"
	"go/types"
	"math"
	"unicode/utf8"

	"golang.org/x/tools/go/ssa"
)

func (ex *Exec) unop(in *ssa.UnOp, x Value) Value {
	if p, ok := x.(Poison); ok {
		if in.Op == token.MUL {
			ex.unsupported("load through unsupported pointer (%s)", p.Why)
		}
		if in.CommaOk {
			return Tuple{p, p}
		}
		return p
	}
	ts := ex.ts
	switch in.Op {
	case token.MUL: // load
		p := ex.derefPtr(x, "nil pointer dereference")
		return copyVal(*p.P)
	case token.NOT:
		return ts.BNot(x.(*Term))
	case token.SUB:
		switch v := x.(type) {
		case *Term:
			return ts.Neg(v)
		case float64:
			return -v
		}
	case token.XOR:
		return ts.Not(x.(*Term))
	case token.ARROW:
		ex.unsupported("channel receive")
	}
	panic(fmt.Sprintf("unop %s on %T", in.Op, x))
}

func (ex *Exec) binop(op token.Token, t types.Type, x, y Value) Value {
	if p, ok := x.(Poison); ok {
		return p
	}
	if p, ok := y.(Poison); ok {
		return p
	}
	ts := ex.ts
	switch op {
	case token.EQL:
		return ex.equal(x, y)
	case token.NEQ:
		r := ex.equal(x, y)
		if b, ok := r.(*Term); ok {
			return ts.BNot(b)
		}
		return r
	}
	switch a := x.(type) {
	case *Term:
		b, ok := y.(*Term)
		if !ok {
			panic(fmt.Sprintf("binop %s on Term and %T", op, y))
		}
		_, signed, _ := isInteger(t)
		switch op {
		case token.ADD:
			return ts.Add(a, b)
		case token.SUB:
			return ts.Sub(a, b)
		case token.MUL:
			return ts.Mul(a, b)
		case token.QUO, token.REM:
			ex.mustHold(ts.BNot(ts.Eq(b, ts.Const(b.W, 0))), "integer divide by zero")
			if signed {
				if op == token.QUO {
					return ts.BinBV(OSDiv, a, b)
				}
				return ts.BinBV(OSRem, a, b)
			}
			if op == token.QUO {
				return ts.BinBV(OUDiv, a, b)
			}
			return ts.BinBV(OURem, a, b)
		case token.AND:
			if a.W == 0 {
				return ts.And(a, b)
			}
			return ts.BinBV(OAnd, a, b)
		case token.OR:
			if a.W == 0 {
				return ts.Or(a, b)
			}
			return ts.BinBV(OOr, a, b)
		case token.XOR:
			return ts.BinBV(OXor, a, b)
		case token.AND_NOT:
			return ts.BinBV(OAnd, a, ts.Not(b))
		case token.SHL, token.SHR:
			return ex.shift(op, a, b, signed)
		case token.LSS:
			if signed {
				return ts.Slt(a, b)
			}
			return ts.Ult(a, b)
		case token.LEQ:
			if signed {
				return ts.Sle(a, b)
			}
			return ts.Ule(a, b)
		case token.GTR:
			if signed {
				return ts.Slt(b, a)
			}
			return ts.Ult(b, a)
		case token.GEQ:
			if signed {
				return ts.Sle(b, a)
			}
			return ts.Ule(b, a)
		}
	case Str:
		b, ok := y.(Str)
		if !ok {
			panic(fmt.Sprintf("binop %s on Str and %T", op, y))
		}
		switch op {
		case token.ADD:
			return concatStr(a, b)
		case token.LSS, token.LEQ, token.GTR, token.GEQ:
			sa, ok1 := a.Concrete()
			sb, ok2 := b.Concrete()
			if !ok1 || !ok2 {
				return Poison{"ordering of symbolic strings"}
			}
			switch op {
			case token.LSS:
				return ts.Bool(sa < sb)
			case token.LEQ:
				return ts.Bool(sa <= sb)
			case token.GTR:
				return ts.Bool(sa > sb)
			default:
				return ts.Bool(sa >= sb)
			}
		}
	case float64:
		b := y.(float64)
		switch op {
		case token.ADD:
			return a + b
		case token.SUB:
			return a - b
		case token.MUL:
			return a * b
		case token.QUO:
			return a / b
		case token.LSS:
			return ts.Bool(a < b)
		case token.LEQ:
			return ts.Bool(a <= b)
		case token.GTR:
			return ts.Bool(a > b)
		case token.GEQ:
			return ts.Bool(a >= b)
		}
	}
	panic(fmt.Sprintf("binop %s on %T, %T", op, x, y))
}

func (ex *Exec) shift(op token.Token, a, b *Term, signed bool) Value {
	ts := ex.ts
	w := a.W
	// bring the count to the width of a; counts >= w give 0 (or sign fill)
	var cnt *Term
	over := ts.False()
	switch {
	case b.W == w:
		cnt = b
	case b.W < w:
		cnt = ts.Zext(b, w)
	default:
		over = ts.BNot(ts.Ult(b, ts.Const(b.W, uint64(w))))
		cnt = ts.Extract(b, 0, w)
	}
	// SMT shifts already yield 0 (shl/lshr) or sign fill (ashr) for counts >= w
	var r *Term
	switch {
	case op == token.SHL:
		r = ts.BinBV(OShl, a, cnt)
	case signed:
		r = ts.BinBV(OAShr, a, cnt)
	default:
		r = ts.BinBV(OLShr, a, cnt)
	}
	if !over.IsFalse() {
		var sat *Term
		if op == token.SHR && signed {
			sat = ts.BinBV(OAShr, a, ts.Const(w, uint64(w-1)))
		} else {
			sat = ts.Const(w, 0)
		}
		r = ts.Ite(over, sat, r)
	}
	return r
}

// equal implements == for all comparable values; returns a Boolean term or
// Poison.
func (ex *Exec) equal(x, y Value) Value {
	ts := ex.ts
	switch a := x.(type) {
	case *Term:
		b, ok := y.(*Term)
		if !ok {
			return ts.False()
		}
		if a.W != b.W {
			return ts.False()
		}
		return ts.Eq(a, b)
	case Str:
		b, ok := y.(Str)
		if !ok {
			return ts.False()
		}
		return ex.strEq(a, b)
	case Ptr:
		b, ok := y.(Ptr)
		if !ok {
			return ts.False()
		}
		return ts.Bool(a.P == b.P)
	case float64:
		b, ok := y.(float64)
		return ts.Bool(ok && a == b)
	case Iface:
		b, ok := y.(Iface)
		if !ok {
			return ts.False()
		}
		if a.T == nil || b.T == nil {
			return ts.Bool(a.T == nil && b.T == nil)
		}
		if !types.Identical(a.T, b.T) {
			return ts.False()
		}
		return ex.equal(a.V, b.V)
	case *MapV:
		b, ok := y.(*MapV)
		return ts.Bool(ok && a == b)
	case *Closure:
		b, ok := y.(*Closure)
		return ts.Bool(ok && a == b)
	case Slice:
		b, ok := y.(Slice)
		if !ok {
			return ts.False()
		}
		// only comparison with nil is legal
		if a.Nil && a.A == nil && a.Rope == nil {
			return ts.Bool(b.Nil && b.A == nil && b.Rope == nil)
		}
		if b.Nil && b.A == nil && b.Rope == nil {
			return ts.False()
		}
		return Poison{"slice comparison"}
	case Struct:
		b, ok := y.(Struct)
		if !ok || len(a) != len(b) {
			return ts.False()
		}
		r := ts.True()
		for i := range a {
			e, ok := ex.equal(a[i], b[i]).(*Term)
			if !ok {
				return Poison{"struct comparison"}
			}
			r = ts.And(r, e)
		}
		return r
	case Array:
		b, ok := y.(Array)
		if !ok || len(a) != len(b) {
			return ts.False()
		}
		r := ts.True()
		for i := range a {
			e, ok := ex.equal(a[i], b[i]).(*Term)
			if !ok {
				return Poison{"array comparison"}
			}
			r = ts.And(r, e)
		}
		return r
	case *Host:
		b, ok := y.(*Host)
		return ts.Bool(ok && a == b)
	case nil:
		return ts.Bool(y == nil)
	case Poison:
		return a
	}
	if p, ok := y.(Poison); ok {
		return p
	}
	return Poison{fmt.Sprintf("comparison of %T", x)}
}

func (ex *Exec) conv(dst, src types.Type, x Value) Value {
	if p, ok := x.(Poison); ok {
		return p
	}
	ts := ex.ts
	ud, us := dst.Underlying(), src.Underlying()
	switch v := x.(type) {
	case *Term:
		if w, _, ok := isInteger(dst); ok {
			_, ssigned, _ := isInteger(src)
			switch {
			case w == v.W:
				return v
			case w < v.W:
				return ts.Extract(v, 0, w)
			case ssigned:
				return ts.Sext(v, w)
			default:
				return ts.Zext(v, w)
			}
		}
		if isString(dst) {
			// string(rune)
			if !v.IsConst() {
				return Poison{"string(symbolic rune)"}
			}
			r := rune(scoef(v.K, v.W))
			return ex.strLit(string(r))
		}
		if isFloat(dst) {
			if !v.IsConst() {
				return Poison{"float of symbolic integer"}
			}
			_, ssigned, _ := isInteger(src)
			if ssigned {
				return float64(scoef(v.K, v.W))
			}
			return float64(v.K)
		}
		if b, ok := ud.(*types.Basic); ok && b.Kind() == types.UnsafePointer {
			return Poison{"unsafe.Pointer from integer"}
		}
	case float64:
		if w, signed, ok := isInteger(dst); ok {
			if signed {
				return ts.Const(w, uint64(int64(v)))
			}
			return ts.Const(w, uint64(v))
		}
		if isFloat(dst) {
			if b := ud.(*types.Basic); b.Kind() == types.Float32 {
				return float64(float32(v))
			}
			return v
		}
	case Str:
		if isString(dst) {
			return v
		}
		if sl, ok := ud.(*types.Slice); ok {
			eb, _ := sl.Elem().Underlying().(*types.Basic)
			if eb != nil && eb.Kind() == types.Uint8 {
				return ex.strToBytes(v)
			}
			if eb != nil && eb.Kind() == types.Int32 {
				s, ok := v.Concrete()
				if !ok {
					return Poison{"[]rune of symbolic string"}
				}
				var a []Value
				for _, r := range s {
					a = append(a, ts.Const(32, uint64(r)))
				}
				return Slice{A: a}
			}
		}
	case Slice:
		if isString(dst) {
			sl := us.(*types.Slice)
			eb, _ := sl.Elem().Underlying().(*types.Basic)
			if eb != nil && eb.Kind() == types.Uint8 {
				return ex.bytesToStr(v)
			}
			if eb != nil && eb.Kind() == types.Int32 {
				buf := make([]byte, 0, len(v.A)*2)
				for _, e := range v.A {
					t := e.(*Term)
					if !t.IsConst() {
						return Poison{"string of symbolic runes"}
					}
					buf = utf8.AppendRune(buf, rune(scoef(t.K, 32)))
				}
				return ex.strLit(string(buf))
			}
		}
		if _, ok := ud.(*types.Slice); ok {
			return v
		}
	case Ptr:
		if _, ok := ud.(*types.Pointer); ok {
			return v
		}
		if b, ok := ud.(*types.Basic); ok && b.Kind() == types.UnsafePointer {
			return v
		}
	}
	_ = math.MaxInt
	return Poison{fmt.Sprintf("conversion %s -> %s", src, dst)}
}

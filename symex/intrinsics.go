package main

// Intrinsics: the harness runtime (vrt), and stubs for library code that the
// interpreter does not execute from SSA (logging, fmt, parts of strings/bytes,
// errors.Is, context.WithValue, regexp, text/template, ...). Every stub used
// on a run is counted and listed in the evidence.

import (
	"fmt"
	"go/token"
	"go/types"
	"regexp"
	"strconv"
	"strings"

	"golang.org/x/tools/go/ssa"
)

type intrinsicFn func(ex *Exec, fn *ssa.Function, args []Value, caller *Frame) Value

var logMethodRe = regexp.MustCompile(`^(Trace|Debug|Info|Warn|Error|Print|Write)(Ctx)?f$`)

var intrinsicCache = map[*ssa.Function]intrinsicFn{}
var intrinsicMiss = map[*ssa.Function]bool{}
var intrinsicMu = newRW()

func (ex *Exec) intrinsic(fn *ssa.Function) intrinsicFn {
	intrinsicMu.RLock()
	h, ok := intrinsicCache[fn]
	miss := intrinsicMiss[fn]
	intrinsicMu.RUnlock()
	if ok {
		return h
	}
	if miss {
		return nil
	}
	h = lookupIntrinsic(fn)
	intrinsicMu.Lock()
	if h != nil {
		intrinsicCache[fn] = h
	} else {
		intrinsicMiss[fn] = true
	}
	intrinsicMu.Unlock()
	return h
}

func fnPkgPath(fn *ssa.Function) string {
	if fn.Pkg != nil {
		return fn.Pkg.Pkg.Path()
	}
	if fn.Signature != nil && fn.Signature.Recv() != nil {
		t := fn.Signature.Recv().Type()
		if p, ok := t.(*types.Pointer); ok {
			t = p.Elem()
		}
		if n, ok := t.(*types.Named); ok && n.Obj().Pkg() != nil {
			return n.Obj().Pkg().Path()
		}
	}
	if o := fn.Object(); o != nil && o.Pkg() != nil {
		return o.Pkg().Path()
	}
	return ""
}

func lookupIntrinsic(fn *ssa.Function) intrinsicFn {
	name := fn.String()
	pkg := fnPkgPath(fn)
	if pkg == harnessMod+"/vrt" {
		if h, ok := vrtIntrinsics[fn.Name()]; ok && fn.Signature.Recv() != nil {
			return h
		}
	}
	if pkg == viseMod+"/logging" && fn.Signature.Recv() != nil && logMethodRe.MatchString(fn.Name()) {
		return func(ex *Exec, fn *ssa.Function, args []Value, caller *Frame) Value { return nil }
	}
	if h, ok := namedIntrinsics[name]; ok {
		if name == viseMod+"/asm.numSize" && !callsFunc(fn, "math.Log2") {
			// the contract stub stands for the floating-point implementation
			// only; an implementation without math.Log2 is executed for real
			return nil
		}
		return h
	}
	switch pkg {
	case "log":
		return func(ex *Exec, fn *ssa.Function, args []Value, caller *Frame) Value {
			return ex.zeroResults(fn)
		}
	case "reflect", "sync", "sync/atomic", "runtime", "syscall", "internal/reflectlite", "unsafe",
		"github.com/alecthomas/participle/v2", "github.com/alecthomas/participle/v2/lexer",
		"os/signal", "net", "net/http", "time", "math/rand", "os/exec",
		"gopkg.in/leonelquinteros/gotext.v1", "github.com/jackc/pgx/v5/pgxpool":
		return func(ex *Exec, fn *ssa.Function, args []Value, caller *Frame) Value {
			return ex.poisonResult(fn, "not modelled: "+fn.String())
		}
	}
	return nil
}

// ------------------------------------------------------------------------ vrt

func (ex *Exec) newCtxValue(fn *ssa.Function) Value {
	pt := fn.Params[0].Type().Underlying().(*types.Pointer)
	cell := new(Value)
	*cell = ex.zero(pt.Elem())
	return Ptr{P: cell}
}

func (ex *Exec) labelArg(v Value) string {
	s, ok := v.(Str)
	if !ok {
		return "?"
	}
	c, ok := s.Concrete()
	if !ok {
		return "?"
	}
	return c
}

func (ex *Exec) draw(label, kind string, w uint8, lo, hi uint64) *Term {
	n := len(ex.draws)
	name := fmt.Sprintf("d%d_%s_w%d_%d_%d", n, kind, w, lo, hi)
	t := ex.ts.Var(name, w, lo, hi)
	ex.draws = append(ex.draws, DrawRec{Label: label, Kind: kind, W: int(w), T: t})
	return t
}

var vrtIntrinsics map[string]intrinsicFn

func iteIntrinsic(ex *Exec, fn *ssa.Function, args []Value, caller *Frame) Value {
	return ex.ts.Ite(args[1].(*Term), args[2].(*Term), args[3].(*Term))
}

func init() {
	vrtIntrinsics = map[string]intrinsicFn{
		"Param": func(ex *Exec, fn *ssa.Function, args []Value, caller *Frame) Value {
			name := ex.labelArg(args[1])
			v, ok := ex.params[name]
			if !ok {
				ex.end(endInconclusive, "missing harness parameter %q", name)
			}
			return ex.ts.Const(64, uint64(int64(v)))
		},
		"Bool": func(ex *Exec, fn *ssa.Function, args []Value, caller *Frame) Value {
			return ex.draw(ex.labelArg(args[1]), "bool", 0, 0, 1)
		},
		"U8": func(ex *Exec, fn *ssa.Function, args []Value, caller *Frame) Value {
			return ex.draw(ex.labelArg(args[1]), "u8", 8, 0, mask(8))
		},
		"U16": func(ex *Exec, fn *ssa.Function, args []Value, caller *Frame) Value {
			return ex.draw(ex.labelArg(args[1]), "u16", 16, 0, mask(16))
		},
		"U32": func(ex *Exec, fn *ssa.Function, args []Value, caller *Frame) Value {
			return ex.draw(ex.labelArg(args[1]), "u32", 32, 0, mask(32))
		},
		"U64": func(ex *Exec, fn *ssa.Function, args []Value, caller *Frame) Value {
			return ex.draw(ex.labelArg(args[1]), "u64", 64, 0, mask(64))
		},
		"Int": func(ex *Exec, fn *ssa.Function, args []Value, caller *Frame) Value {
			lo := ex.concreteInt(args[2], "Int lo")
			hi := ex.concreteInt(args[3], "Int hi")
			if lo < 0 || hi < lo {
				ex.end(endInconclusive, "vrt.Int: range [%d,%d] not supported", lo, hi)
			}
			return ex.draw(ex.labelArg(args[1]), "int", 64, uint64(lo), uint64(hi))
		},
		"Choice": func(ex *Exec, fn *ssa.Function, args []Value, caller *Frame) Value {
			n := ex.concreteInt(args[2], "Choice n")
			if n <= 0 {
				ex.end(endInconclusive, "vrt.Choice with n=%d", n)
			}
			t := ex.draw(ex.labelArg(args[1]), "choice", 64, 0, uint64(n-1))
			v := ex.concretize(t, 0, uint64(n-1))
			return ex.ts.Const(64, v)
		},
		"Bytes": func(ex *Exec, fn *ssa.Function, args []Value, caller *Frame) Value {
			n := ex.concreteInt(args[2], "Bytes n")
			label := ex.labelArg(args[1])
			a := make([]Value, n)
			for i := range a {
				a[i] = ex.draw(label, "byte", 8, 0, 255)
			}
			return Slice{A: a}
		},
		"Str": func(ex *Exec, fn *ssa.Function, args []Value, caller *Frame) Value {
			n := ex.concreteInt(args[2], "Str n")
			label := ex.labelArg(args[1])
			if n == 0 {
				return Str{}
			}
			b := make([]*Term, n)
			for i := range b {
				b[i] = ex.draw(label, "byte", 8, 0, 255)
			}
			return Str{Segs: []Seg{{B: b}}}
		},
		"Opaque": func(ex *Exec, fn *ssa.Function, args []Value, caller *Frame) Value {
			label := ex.labelArg(args[1])
			tag := byte(ex.concreteInt(args[2], "Opaque tag"))
			lo := ex.concreteInt(args[3], "Opaque lo")
			hi := ex.concreteInt(args[4], "Opaque hi")
			if lo < 0 || hi < lo {
				ex.end(endInconclusive, "vrt.Opaque: range [%d,%d]", lo, hi)
			}
			t := ex.draw(label, "opaque", 64, uint64(lo), uint64(hi))
			if hi == 0 {
				return Str{}
			}
			if lo == 0 {
				// normalise: every chunk in a rope is non-empty
				if ex.branch(ex.ts.Eq(t, ex.ts.Const(64, 0))) {
					return Str{}
				}
				// re-declare with the tighter interval for the executor
				nt := ex.ts.Var(t.Name+"_nz", 64, 1, uint64(hi))
				ex.auxVars = append(ex.auxVars, nt)
				ex.assume(ex.ts.Eq(nt, t))
				t = nt
			}
			ex.chunkID++
			return Str{Segs: []Seg{{Tag: tag, ID: ex.chunkID, Len: t}}}
		},
		"Assume": func(ex *Exec, fn *ssa.Function, args []Value, caller *Frame) Value {
			c, ok := args[1].(*Term)
			if !ok {
				ex.unsupported("Assume on %s", describe(args[1]))
			}
			ex.assume(c)
			return nil
		},
		"Assert": func(ex *Exec, fn *ssa.Function, args []Value, caller *Frame) Value {
			id := ex.labelArg(args[2])
			c, ok := args[1].(*Term)
			if !ok {
				ex.unsupported("Assert(%s) on %s", id, describe(args[1]))
			}
			ex.oblige(c, id)
			return nil
		},
		"Cover": func(ex *Exec, fn *ssa.Function, args []Value, caller *Frame) Value {
			ex.covers = append(ex.covers, ex.labelArg(args[1]))
			return nil
		},
		"Finding": func(ex *Exec, fn *ssa.Function, args []Value, caller *Frame) Value {
			class := ex.labelArg(args[1])
			c, ok := args[2].(*Term)
			if !ok {
				ex.unsupported("Finding(%s) on %s", class, describe(args[2]))
			}
			if ex.branch(c) {
				ex.classes = append(ex.classes, class)
				return ex.ts.True()
			}
			return ex.ts.False()
		},
		"Observe": func(ex *Exec, fn *ssa.Function, args []Value, caller *Frame) Value {
			v := args[2]
			if iv, ok := v.(Iface); ok {
				if iv.T == nil {
					v = ex.strLitObs("nil")
				} else if ex.implements(iv.T, errorIface()) {
					v = ex.strLitObs("error")
				} else {
					v = iv.V
				}
			}
			ex.obs = append(ex.obs, ObsRec{Name: ex.labelArg(args[1]), Val: v})
			return nil
		},
		"Try": func(ex *Exec, fn *ssa.Function, args []Value, caller *Frame) Value {
			f := args[1]
			panicked := false
			ex.tryDepth++
			depth := ex.depth
			func() {
				defer func() {
					if r := recover(); r != nil {
						if _, ok := r.(*goPanic); ok {
							panicked = true
							return
						}
						panic(r)
					}
				}()
				ex.call(f, nil, caller, token.NoPos)
			}()
			ex.depth = depth
			ex.tryDepth--
			return ex.ts.Bool(panicked)
		},
		"SetCrashOK": func(ex *Exec, fn *ssa.Function, args []Value, caller *Frame) Value {
			ex.crashOK = args[1].(*Term).IsTrue()
			return nil
		},
		"Runs": func(ex *Exec, fn *ssa.Function, args []Value, caller *Frame) Value {
			return ex.runsOf(args[1].(Str))
		},
		"MarkShared": func(ex *Exec, fn *ssa.Function, args []Value, caller *Frame) Value {
			ex.markShared(args[1], "shared")
			return nil
		},
		"Or": func(ex *Exec, fn *ssa.Function, args []Value, caller *Frame) Value {
			return ex.ts.Or(args[1].(*Term), args[2].(*Term))
		},
		"And": func(ex *Exec, fn *ssa.Function, args []Value, caller *Frame) Value {
			return ex.ts.And(args[1].(*Term), args[2].(*Term))
		},
		"Implies": func(ex *Exec, fn *ssa.Function, args []Value, caller *Frame) Value {
			return ex.ts.Or(ex.ts.BNot(args[1].(*Term)), args[2].(*Term))
		},
		"IteU8":  iteIntrinsic,
		"IteU32": iteIntrinsic,
		"IteInt": iteIntrinsic,
		"TempDir": func(ex *Exec, fn *ssa.Function, args []Value, caller *Frame) Value {
			fs := ex.fs()
			fs.tmpN++
			// nested, so that lexical path traversal by a short key stays
			// inside the run's own directory (natively: inside the temp dir)
			base := fmt.Sprintf("/data%d", fs.tmpN)
			for _, p := range []string{"/", base, base + "/a", base + "/a/b", base + "/a/b/c"} {
				fs.dirs = append(fs.dirs, ex.strLit(p))
			}
			return ex.strLit(base + "/a/b/c")
		},
		"CrashWindow": func(ex *Exec, fn *ssa.Function, args []Value, caller *Frame) Value {
			// the process may die before any file-system step inside f, or
			// inside a write; which step is a solver variable
			fs := ex.fs()
			maxSteps := ex.concreteInt(args[1], "CrashWindow maxsteps")
			fs.crashAt = ex.draw("crash-step", "int", 64, 0, uint64(maxSteps))
			fs.partial = ex.draw("crash-partial", "int", 64, 0, 1<<16)
			// two values for the native replay (how to reproduce this crash
			// with the real kernel), filled in when the window has run
			metaAt := len(ex.draws)
			ex.draws = append(ex.draws, DrawRec{Label: "crash-kind", Kind: "meta", W: 64, T: ex.ts.Const(64, 0)},
				DrawRec{Label: "crash-arg", Kind: "meta", W: 64, T: ex.ts.Const(64, 0)})
			fs.crashOn, fs.step, fs.crashedAt, fs.log = true, 0, 0, nil
			fs.windows++
			renames0 := fs.renames
			_ = renames0
			crashed := false
			depth, try := ex.depth, ex.tryDepth
			func() {
				defer func() {
					if r := recover(); r != nil {
						if _, ok := r.(crashSignal); ok {
							crashed = true
							return
						}
						panic(r)
					}
				}()
				ex.call(args[2], nil, caller, token.NoPos)
			}()
			ex.depth, ex.tryDepth = depth, try
			fs.crashOn = false
			kind, arg := uint64(0), uint64(0)
			if !crashed {
				// the crash variable must not name a step that never happened
				ex.assume(ex.ts.Or(ex.ts.Eq(fs.crashAt, ex.ts.Const(64, 0)), ex.ts.Ult(ex.ts.Const(64, uint64(fs.step)), fs.crashAt)))
				if fs.step > maxSteps {
					ex.end(endInconclusive, "crash window has %d file-system steps, more than the declared %d", fs.step, maxSteps)
				}
			} else {
				what := fs.log[fs.crashedAt-1]
				visibleBefore, writesBefore := false, 0
				for _, w := range fs.log[:fs.crashedAt-1] {
					if !strings.HasPrefix(w, "close") && !strings.HasPrefix(w, "sync") {
						visibleBefore = true
					}
					if strings.HasPrefix(w, "write") {
						writesBefore++
					}
				}
				switch {
				case strings.HasPrefix(what, "write") && writesBefore == 0:
					kind, arg = 2, uint64(fs.crashPart)
				case strings.HasPrefix(what, "rename"):
					kind, arg = 3, uint64(fs.renames)
				case !visibleBefore && (strings.HasPrefix(what, "create") || strings.HasPrefix(what, "truncate") || strings.HasPrefix(what, "mkdir")):
					kind = 1
				default:
					kind = 5
				}
			}
			ex.draws[metaAt].T = ex.ts.Const(64, kind)
			ex.draws[metaAt+1].T = ex.ts.Const(64, arg)
			return ex.ts.Bool(crashed)
		},
		"WriteFault": func(ex *Exec, fn *ssa.Function, args []Value, caller *Frame) Value {
			// the first write inside f may fail after part of its data is out;
			// whether it does is a solver variable
			fs := ex.fs()
			x := ex.draw("write-fault", "bool", 0, 0, 1)
			on := ex.branch(x)
			fs.wfault, fs.wfaultDone = on, false
			ex.call(args[1], nil, caller, token.NoPos)
			fs.wfault = false
			if on && !fs.wfaultDone {
				ex.assume(ex.ts.False()) // no write happened that could fail
			}
			return ex.ts.Bool(on)
		},
		"FsOwner": func(ex *Exec, fn *ssa.Function, args []Value, caller *Frame) Value {
			ex.fs().owner = ex.labelArg(args[1])
			return nil
		},
		"TrackFootprint": func(ex *Exec, fn *ssa.Function, args []Value, caller *Frame) Value {
			ex.trackFoot = args[1].(*Term).IsTrue()
			if ex.trackFoot {
				ex.snapshotGlobals()
			}
			return nil
		},
	}
}

// observation of a fixed word (rendered without quotes natively)
type obsWord string

func (ex *Exec) strLitObs(s string) Value { return obsWord(s) }

var errIface *types.Interface

func errorIface() *types.Interface {
	if errIface == nil {
		errIface = types.Universe.Lookup("error").Type().Underlying().(*types.Interface)
	}
	return errIface
}

// runsOf returns the run-length structure []vrt.RunLen{Tag, Len}.
func (ex *Exec) runsOf(s Str) Value {
	ts := ex.ts
	type run struct {
		tag *Term
		n   *Term
	}
	var runs []run
	add := func(tag, n *Term) {
		if k := len(runs); k > 0 {
			if ex.branch(ts.Eq(runs[k-1].tag, tag)) {
				runs[k-1].n = ts.Add(runs[k-1].n, n)
				return
			}
		}
		runs = append(runs, run{tag, n})
	}
	for _, g := range s.Segs {
		if g.opaque() {
			add(ts.Const(8, uint64(g.Tag)), g.Len)
			continue
		}
		for _, b := range g.B {
			add(b, ts.Const(64, 1))
		}
	}
	out := make([]Value, len(runs))
	for i, r := range runs {
		out[i] = Struct{r.tag, r.n}
	}
	return Slice{A: out}
}

// ---------------------------------------------------------------------- errors

func (ex *Exec) mkError(msg Str) Value {
	cell := new(Value)
	*cell = Struct{msg}
	return Iface{T: ex.P.errorStringPtr(), V: Ptr{P: cell}}
}

func (ex *Exec) mkWrapError(msg Str, inner Value) Value {
	cell := new(Value)
	*cell = Struct{msg, inner}
	return Iface{T: ex.P.wrapErrorPtr(), V: Ptr{P: cell}}
}

// callMethod invokes method name on an interface value's dynamic type.
func (ex *Exec) callMethod(iv Iface, name string, args ...Value) (Value, bool) {
	if iv.T == nil {
		return nil, false
	}
	if h, ok := iv.V.(*Host); ok {
		m := ex.hostMethod(h, name)
		if m == nil {
			return nil, false
		}
		return m(ex, args), true
	}
	ms := ex.P.prog.MethodSets.MethodSet(iv.T)
	var sel *types.Selection
	for i := 0; i < ms.Len(); i++ {
		if ms.At(i).Obj().Name() == name {
			sel = ms.At(i)
			break
		}
	}
	if sel == nil {
		return nil, false
	}
	m := ex.P.prog.MethodValue(sel)
	if m == nil {
		return nil, false
	}
	all := append([]Value{iv.V}, args...)
	return ex.call(&Closure{Fn: m}, all, nil, token.NoPos), true
}

func (ex *Exec) errorChainIs(err, target Iface) bool {
	for depth := 0; depth < 32; depth++ {
		if err.T == nil {
			return false
		}
		eq := ex.equal(err, target)
		if t, ok := eq.(*Term); ok {
			if ex.branch(t) {
				return true
			}
		}
		// Is method is not used by go-vise; follow Unwrap
		r, ok := ex.callMethod(err, "Unwrap")
		if !ok {
			return false
		}
		next, ok := r.(Iface)
		if !ok {
			return false
		}
		err = next
	}
	return false
}

// -------------------------------------------------------------------- fmt stub

func (ex *Exec) freshOpaque(tag byte, lo, hi uint64, why string) Str {
	// an uninterpreted piece of formatted text (digits of a symbolic number,
	// a pointer value...) whose exact length is left open
	n := len(ex.draws)
	name := fmt.Sprintf("f%d_%s_%d_%d", n, why, lo, hi)
	t := ex.ts.Var(name, 64, lo, hi)
	ex.draws = append(ex.draws, DrawRec{Label: "fmt:" + why, Kind: "fmt", W: 64, T: t})
	ex.chunkID++
	return Str{Segs: []Seg{{Tag: tag, ID: ex.chunkID, Len: t}}}
}

func (ex *Exec) formatArg(verb byte, spec string, arg Value, depth int) Str {
	if iv, ok := arg.(Iface); ok {
		if iv.T == nil {
			if verb == 's' || verb == 'v' || verb == 'd' {
				return ex.strLit("<nil>")
			}
			return ex.strLit("%!" + string(verb) + "(<nil>)")
		}
		if verb == 'T' {
			return ex.strLit(iv.T.String())
		}
		if verb != 'p' && verb != 'd' && verb != 'x' && verb != 'c' && verb != 't' && depth < 4 {
			if ex.implements(iv.T, errorIface()) {
				if r, ok := ex.callMethod(iv, "Error"); ok {
					if s, ok := r.(Str); ok {
						return ex.padStr(spec, verb, s)
					}
				}
			} else if _, isHost := iv.V.(*Host); !isHost {
				ms := ex.P.prog.MethodSets.MethodSet(iv.T)
				for i := 0; i < ms.Len(); i++ {
					m := ms.At(i).Obj().(*types.Func)
					sig := m.Type().(*types.Signature)
					if m.Name() == "String" && sig.Params().Len() == 0 && sig.Results().Len() == 1 && isString(sig.Results().At(0).Type()) {
						if r, ok := ex.callMethod(iv, "String"); ok {
							if s, ok := r.(Str); ok {
								return ex.padStr(spec, verb, s)
							}
						}
					}
				}
			}
		}
		return ex.formatArgT(verb, spec, iv.V, iv.T, depth)
	}
	return ex.formatArgT(verb, spec, arg, nil, depth)
}

func (ex *Exec) padStr(spec string, verb byte, s Str) Str {
	if spec == "" {
		if verb == 'q' {
			if c, ok := s.Concrete(); ok {
				return ex.strLit(strconv.Quote(c))
			}
			return concatStr(concatStr(ex.strLit(`"`), s), ex.strLit(`"`))
		}
		if verb == 'x' {
			if c, ok := s.Concrete(); ok {
				return ex.strLit(fmt.Sprintf("%x", c))
			}
			return ex.freshOpaque('x', 0, 1<<20, "hex")
		}
		return s
	}
	if c, ok := s.Concrete(); ok {
		return ex.strLit(fmt.Sprintf("%"+spec+string(verb), c))
	}
	return ex.freshOpaque('?', 0, 1<<20, "padded")
}

func (ex *Exec) formatArgT(verb byte, spec string, arg Value, typ types.Type, depth int) Str {
	switch v := arg.(type) {
	case Str:
		return ex.padStr(spec, verb, v)
	case *Term:
		if v.IsConst() {
			if v.W == 0 {
				return ex.strLit(fmt.Sprintf("%"+spec+string(verb), v.K == 1))
			}
			signed := false
			if typ != nil {
				_, signed, _ = isInteger(typ)
			}
			if verb == 'v' || verb == 's' {
				if verb == 's' {
					return ex.strLit(fmt.Sprintf("%%!s(%s=%d)", typeNameOr(typ, "int"), v.K))
				}
				verb = 'd'
			}
			if signed {
				return ex.strLit(fmt.Sprintf("%"+spec+string(verb), scoef(v.K, v.W)))
			}
			return ex.strLit(fmt.Sprintf("%"+spec+string(verb), v.K))
		}
		// the rendering of a symbolic number is a function of the term: the
		// same term formatted twice gives the same (uninterpreted) text
		ck := fmt.Sprintf("fmt|%d|%c|%s", v.id, verb, spec)
		if c, ok := ex.hostState[ck]; ok {
			return c.(Str)
		}
		var r Str
		switch {
		case v.W == 0:
			r = ex.freshOpaque('b', 4, 5, "bool")
		case verb == 'x' || verb == 'X':
			r = ex.freshOpaque('f', 1, 16, "hexnum")
		case verb == 'c':
			r = ex.freshOpaque('c', 1, 4, "char")
		default:
			r = ex.freshOpaque('9', 1, 20, "num")
		}
		ex.hostState[ck] = r
		return r
	case Slice:
		if v.Rope != nil {
			if verb == 's' || verb == 'v' {
				return *v.Rope
			}
			return ex.freshOpaque('?', 0, 1<<24, "bytes")
		}
		isBytes := len(v.A) > 0
		allConc := true
		for _, e := range v.A {
			t, ok := e.(*Term)
			if !ok || t.W != 8 {
				isBytes = false
				break
			}
			if !t.IsConst() {
				allConc = false
			}
		}
		if typ != nil {
			if sl, ok := typ.Underlying().(*types.Slice); ok {
				if b, ok := sl.Elem().Underlying().(*types.Basic); ok && b.Kind() == types.Uint8 {
					isBytes = true
				}
			}
		}
		if isBytes {
			if verb == 's' {
				return ex.padStr(spec, verb, ex.bytesToStr(v))
			}
			if allConc {
				buf := make([]byte, len(v.A))
				for i, e := range v.A {
					buf[i] = byte(e.(*Term).K)
				}
				return ex.strLit(fmt.Sprintf("%"+spec+string(verb), buf))
			}
			if verb == 'x' {
				return ex.freshOpaque('f', uint64(2*len(v.A)), uint64(2*len(v.A)), "hexbytes")
			}
			return ex.freshOpaque('?', 2, uint64(2+4*len(v.A)), "bytes")
		}
		// generic slice: [a b c]
		r := ex.strLit("[")
		for i, e := range v.A {
			if i > 0 {
				r = concatStr(r, ex.strLit(" "))
			}
			var et types.Type
			if typ != nil {
				if sl, ok := typ.Underlying().(*types.Slice); ok {
					et = sl.Elem()
				}
			}
			r = concatStr(r, ex.formatArgT(verb, "", e, et, depth+1))
		}
		return concatStr(r, ex.strLit("]"))
	case Ptr:
		if verb == 'p' || verb == 'v' {
			if v.P == nil {
				if verb == 'v' {
					return ex.strLit("<nil>")
				}
				return ex.strLit("0x0")
			}
			return ex.freshOpaque('p', 3, 18, "ptr")
		}
	case float64:
		return ex.strLit(fmt.Sprintf("%"+spec+string(verb), v))
	case Poison:
		return ex.freshOpaque('?', 0, 1<<16, "poison")
	}
	return ex.freshOpaque('?', 0, 1<<16, "value")
}

func typeNameOr(t types.Type, d string) string {
	if t == nil {
		return d
	}
	return t.String()
}

// sprintf formats over ropes. Returns the text and the operand of %w (if any).
func (ex *Exec) sprintf(format Value, argv Value) (Str, Value) {
	fs, ok := format.(Str)
	if !ok {
		return ex.freshOpaque('?', 0, 1<<16, "format"), nil
	}
	f, ok := fs.Concrete()
	if !ok && !fs.HasOpaque() {
		// a format string with symbolic bytes (go-vise formats with constant
		// strings; this is a line of data used as a format). Without a '%'
		// among them the output is the format itself; with one, a single
		// instance is explored (the path is marked partial).
		bs := flatBytes(fs)
		pct := ex.ts.False()
		concPct := false
		for _, b := range bs {
			if b.IsConst() {
				concPct = concPct || b.K == '%'
			} else {
				pct = ex.ts.Or(pct, ex.ts.Eq(b, ex.ts.Const(8, '%')))
			}
		}
		if !concPct && !ex.branch(pct) {
			return fs, nil
		}
		buf := make([]byte, len(bs))
		for i, b := range bs {
			buf[i] = byte(ex.concretizeOne(b, "fmt: format string with symbolic bytes and a '%' among them"))
		}
		f, ok = string(buf), true
	}
	if !ok {
		return ex.freshOpaque('?', 0, 1<<16, "format"), nil
	}
	var args []Value
	if sl, ok := argv.(Slice); ok {
		args = sl.A
	}
	var wrapped Value
	out := Str{}
	ai := 0
	i := 0
	lit := func(s string) {
		if s != "" {
			out = concatStr(out, ex.strLit(s))
		}
	}
	for i < len(f) {
		j := strings.IndexByte(f[i:], '%')
		if j < 0 {
			lit(f[i:])
			break
		}
		lit(f[i : i+j])
		i += j + 1
		start := i
		for i < len(f) && strings.IndexByte("+-# 0123456789.", f[i]) >= 0 {
			i++
		}
		if i >= len(f) {
			lit("%!(NOVERB)")
			break
		}
		spec := f[start:i]
		verb := f[i]
		i++
		if verb == '%' {
			lit("%")
			continue
		}
		if ai >= len(args) {
			lit("%!" + string(verb) + "(MISSING)")
			continue
		}
		a := args[ai]
		ai++
		if verb == 'w' {
			wrapped = a
			verb = 'v'
		}
		out = concatStr(out, ex.formatArg(verb, spec, a, 0))
	}
	if ai < len(args) {
		lit("%!(EXTRA ")
		for k := ai; k < len(args); k++ {
			if k > ai {
				lit(", ")
			}
			if iv, ok := args[k].(Iface); ok && iv.T != nil {
				lit(iv.T.String() + "=")
			}
			out = concatStr(out, ex.formatArg('v', "", args[k], 0))
		}
		lit(")")
	}
	return out, wrapped
}

// ------------------------------------------------------------ named intrinsics

var namedIntrinsics map[string]intrinsicFn

func strArg(ex *Exec, v Value, what string) Str {
	s, ok := v.(Str)
	if !ok {
		if p, isP := v.(Poison); isP {
			ex.unsupported("%s: unsupported string (%s)", what, p.Why)
		}
		ex.unsupported("%s: argument is %T", what, v)
	}
	return s
}

func concArg(ex *Exec, v Value, what string) string {
	s := strArg(ex, v, what)
	c, ok := s.Concrete()
	if !ok {
		ex.unsupported("%s: argument must be concrete, is %s", what, s.Describe())
	}
	return c
}

// builderRope reads the rope kept in the buf field (index bi) of a
// strings.Builder / bytes.Buffer struct.
func builderRope(ex *Exec, recv Value, bi int) (*Value, Str) {
	p := ex.derefPtr(recv, "nil Builder")
	st := (*p.P).(Struct)
	slot := &st[bi]
	switch x := (*slot).(type) {
	case Str:
		return slot, x
	case Slice:
		if x.Rope != nil {
			return slot, *x.Rope
		}
		return slot, ex.bytesToStr(x)
	}
	return slot, Str{}
}

func init() {
	nop := func(ex *Exec, fn *ssa.Function, args []Value, caller *Frame) Value { return ex.zeroResults(fn) }
	namedIntrinsics = map[string]intrinsicFn{
		// ---- fmt
		"fmt.Sprintf": func(ex *Exec, fn *ssa.Function, args []Value, caller *Frame) Value {
			s, _ := ex.sprintf(args[0], args[1])
			return s
		},
		"fmt.Errorf": func(ex *Exec, fn *ssa.Function, args []Value, caller *Frame) Value {
			s, w := ex.sprintf(args[0], args[1])
			if w != nil {
				return ex.mkWrapError(s, w)
			}
			return ex.mkError(s)
		},
		"fmt.Sprint": func(ex *Exec, fn *ssa.Function, args []Value, caller *Frame) Value {
			out := Str{}
			if sl, ok := args[0].(Slice); ok {
				for _, a := range sl.A {
					out = concatStr(out, ex.formatArg('v', "", a, 0))
				}
			}
			return out
		},
		"fmt.Fprintf": func(ex *Exec, fn *ssa.Function, args []Value, caller *Frame) Value {
			s, _ := ex.sprintf(args[1], args[2])
			n := ex.writeTo(args[0], s)
			return Tuple{n, Iface{}}
		},
		"fmt.Printf":  nop,
		"fmt.Println": nop,
		"fmt.Print":   nop,
		// ---- errors
		"errors.Is": func(ex *Exec, fn *ssa.Function, args []Value, caller *Frame) Value {
			e, _ := args[0].(Iface)
			t, _ := args[1].(Iface)
			if e.T == nil || t.T == nil {
				return ex.ts.Bool(e.T == nil && t.T == nil)
			}
			return ex.ts.Bool(ex.errorChainIs(e, t))
		},
		// ---- context
		"context.WithValue": func(ex *Exec, fn *ssa.Function, args []Value, caller *Frame) Value {
			vt := ex.P.namedType("context", "valueCtx")
			cell := new(Value)
			*cell = Struct{args[0], args[1], args[2]}
			return Iface{T: types.NewPointer(vt), V: Ptr{P: cell}}
		},
		// ---- strings
		"(*strings.Builder).WriteString": func(ex *Exec, fn *ssa.Function, args []Value, caller *Frame) Value {
			slot, r := builderRope(ex, args[0], 1)
			s := strArg(ex, args[1], "Builder.WriteString")
			*slot = concatStr(r, s)
			return Tuple{ex.strLen(s), Iface{}}
		},
		"(*strings.Builder).WriteByte": func(ex *Exec, fn *ssa.Function, args []Value, caller *Frame) Value {
			slot, r := builderRope(ex, args[0], 1)
			*slot = concatStr(r, Str{Segs: []Seg{{B: []*Term{args[1].(*Term)}}}})
			return Iface{}
		},
		"(*strings.Builder).WriteRune": func(ex *Exec, fn *ssa.Function, args []Value, caller *Frame) Value {
			slot, r := builderRope(ex, args[0], 1)
			t := args[1].(*Term)
			if !t.IsConst() {
				ex.unsupported("WriteRune of symbolic rune")
			}
			s := string(rune(scoef(t.K, 32)))
			*slot = concatStr(r, ex.strLit(s))
			return Tuple{ex.ts.Const(64, uint64(len(s))), Iface{}}
		},
		"(*strings.Builder).String": func(ex *Exec, fn *ssa.Function, args []Value, caller *Frame) Value {
			_, r := builderRope(ex, args[0], 1)
			return r
		},
		"(*strings.Builder).Len": func(ex *Exec, fn *ssa.Function, args []Value, caller *Frame) Value {
			_, r := builderRope(ex, args[0], 1)
			return ex.strLen(r)
		},
		"(*strings.Builder).Reset": func(ex *Exec, fn *ssa.Function, args []Value, caller *Frame) Value {
			slot, _ := builderRope(ex, args[0], 1)
			*slot = Str{}
			return nil
		},
		"(*strings.Builder).Grow": nop,
		"strings.Split": func(ex *Exec, fn *ssa.Function, args []Value, caller *Frame) Value {
			s := strArg(ex, args[0], "strings.Split")
			sep := concArg(ex, args[1], "strings.Split sep")
			if len(sep) != 1 {
				ex.unsupported("strings.Split with separator %q", sep)
			}
			parts := ex.splitStr(s, sep[0])
			a := make([]Value, len(parts))
			for i, p := range parts {
				a[i] = p
			}
			return Slice{A: a}
		},
		"strings.Join": func(ex *Exec, fn *ssa.Function, args []Value, caller *Frame) Value {
			sl := args[0].(Slice)
			sep := strArg(ex, args[1], "strings.Join")
			out := Str{}
			for i, e := range sl.A {
				if i > 0 {
					out = concatStr(out, sep)
				}
				out = concatStr(out, strArg(ex, e, "strings.Join elem"))
			}
			return out
		},
		"strings.Index": func(ex *Exec, fn *ssa.Function, args []Value, caller *Frame) Value {
			s := strArg(ex, args[0], "strings.Index")
			sub := concArg(ex, args[1], "strings.Index substr")
			if sub == "" {
				return ex.ts.Const(64, 0)
			}
			return ex.indexSub(s, sub)
		},
		"bytes.TrimSpace": func(ex *Exec, fn *ssa.Function, args []Value, caller *Frame) Value {
			// ASCII white space (as strings.TrimSpace here): a multi-byte
			// Unicode space at either end is outside the stub, the native
			// replay of every path would show the difference
			sl, _ := args[0].(Slice)
			cs := "\t\n\v\f\r "
			return ex.strToBytes(ex.trimLeftStr(ex.trimRightStr(ex.bytesToStr(sl), cs), cs))
		},
		"strings.IndexByte": func(ex *Exec, fn *ssa.Function, args []Value, caller *Frame) Value {
			s := strArg(ex, args[0], "strings.IndexByte")
			c := args[1].(*Term)
			if !c.IsConst() {
				ex.unsupported("IndexByte of symbolic byte")
			}
			return ex.indexByteStr(s, byte(c.K))
		},
		"strings.Contains": func(ex *Exec, fn *ssa.Function, args []Value, caller *Frame) Value {
			s := strArg(ex, args[0], "strings.Contains")
			sub := concArg(ex, args[1], "strings.Contains substr")
			if sub == "" {
				return ex.ts.True()
			}
			i := ex.indexSub(s, sub)
			return ex.ts.BNot(ex.ts.Eq(i, ex.ts.Const(64, ^uint64(0))))
		},
		"strings.TrimRight": func(ex *Exec, fn *ssa.Function, args []Value, caller *Frame) Value {
			return ex.trimRightStr(strArg(ex, args[0], "TrimRight"), concArg(ex, args[1], "TrimRight cutset"))
		},
		"strings.TrimLeft": func(ex *Exec, fn *ssa.Function, args []Value, caller *Frame) Value {
			return ex.trimLeftStr(strArg(ex, args[0], "TrimLeft"), concArg(ex, args[1], "TrimLeft cutset"))
		},
		"strings.Trim": func(ex *Exec, fn *ssa.Function, args []Value, caller *Frame) Value {
			cs := concArg(ex, args[1], "Trim cutset")
			return ex.trimLeftStr(ex.trimRightStr(strArg(ex, args[0], "Trim"), cs), cs)
		},
		"strings.TrimSpace": func(ex *Exec, fn *ssa.Function, args []Value, caller *Frame) Value {
			cs := " \t\n\r\v\f"
			return ex.trimLeftStr(ex.trimRightStr(strArg(ex, args[0], "TrimSpace"), cs), cs)
		},
		"strings.HasPrefix": func(ex *Exec, fn *ssa.Function, args []Value, caller *Frame) Value {
			return ex.hasPrefixStr(strArg(ex, args[0], "HasPrefix"), strArg(ex, args[1], "HasPrefix"))
		},
		"strings.HasSuffix": func(ex *Exec, fn *ssa.Function, args []Value, caller *Frame) Value {
			return ex.hasSuffixStr(strArg(ex, args[0], "HasSuffix"), strArg(ex, args[1], "HasSuffix"))
		},
		"strings.Repeat": func(ex *Exec, fn *ssa.Function, args []Value, caller *Frame) Value {
			s := strArg(ex, args[0], "Repeat")
			n := ex.concreteInt(args[1], "Repeat count")
			out := Str{}
			for i := 0; i < n; i++ {
				out = concatStr(out, s)
			}
			return out
		},
		"strings.ReplaceAll": func(ex *Exec, fn *ssa.Function, args []Value, caller *Frame) Value {
			s := strArg(ex, args[0], "ReplaceAll")
			from := concArg(ex, args[1], "ReplaceAll old")
			to := concArg(ex, args[2], "ReplaceAll new")
			if len(from) == 1 && len(to) == 1 {
				return ex.replaceByte(s, from[0], to[0])
			}
			c, ok := s.Concrete()
			if !ok {
				ex.unsupported("strings.ReplaceAll(%q,%q) on symbolic string", from, to)
			}
			return ex.strLit(strings.ReplaceAll(c, from, to))
		},
		"strings.ToLower": func(ex *Exec, fn *ssa.Function, args []Value, caller *Frame) Value {
			return ex.strLit(strings.ToLower(concArg(ex, args[0], "ToLower")))
		},
		"strings.ToUpper": func(ex *Exec, fn *ssa.Function, args []Value, caller *Frame) Value {
			return ex.strLit(strings.ToUpper(concArg(ex, args[0], "ToUpper")))
		},
		// ---- bytes
		"bytes.Equal": func(ex *Exec, fn *ssa.Function, args []Value, caller *Frame) Value {
			a, b := args[0].(Slice), args[1].(Slice)
			return ex.strEq(ex.bytesToStr(a), ex.bytesToStr(b))
		},
		"bytes.ReplaceAll": func(ex *Exec, fn *ssa.Function, args []Value, caller *Frame) Value {
			s := ex.bytesToStr(args[0].(Slice))
			from, ok1 := ex.bytesToStr(args[1].(Slice)).Concrete()
			to, ok2 := ex.bytesToStr(args[2].(Slice)).Concrete()
			if !ok1 || !ok2 || len(from) != 1 || len(to) != 1 {
				ex.unsupported("bytes.ReplaceAll with non single-byte patterns")
			}
			return ex.strToBytes(ex.replaceByte(s, from[0], to[0]))
		},
		"bytes.HasPrefix": func(ex *Exec, fn *ssa.Function, args []Value, caller *Frame) Value {
			return ex.hasPrefixStr(ex.bytesToStr(args[0].(Slice)), ex.bytesToStr(args[1].(Slice)))
		},
		"bytes.HasSuffix": func(ex *Exec, fn *ssa.Function, args []Value, caller *Frame) Value {
			return ex.hasSuffixStr(ex.bytesToStr(args[0].(Slice)), ex.bytesToStr(args[1].(Slice)))
		},
		"bytes.NewBuffer": func(ex *Exec, fn *ssa.Function, args []Value, caller *Frame) Value {
			bt := ex.P.namedType("bytes", "Buffer")
			cell := new(Value)
			z := ex.zero(bt).(Struct)
			if sl, ok := args[0].(Slice); ok {
				z[0] = ex.bytesToStr(sl)
			}
			*cell = z
			return Ptr{P: cell}
		},
		"bytes.NewBufferString": func(ex *Exec, fn *ssa.Function, args []Value, caller *Frame) Value {
			bt := ex.P.namedType("bytes", "Buffer")
			cell := new(Value)
			z := ex.zero(bt).(Struct)
			z[0] = strArg(ex, args[0], "NewBufferString")
			*cell = z
			return Ptr{P: cell}
		},
		"(*bytes.Buffer).WriteString": func(ex *Exec, fn *ssa.Function, args []Value, caller *Frame) Value {
			slot, r := builderRope(ex, args[0], 0)
			s := strArg(ex, args[1], "Buffer.WriteString")
			*slot = concatStr(r, s)
			return Tuple{ex.strLen(s), Iface{}}
		},
		"(*bytes.Buffer).Write": func(ex *Exec, fn *ssa.Function, args []Value, caller *Frame) Value {
			slot, r := builderRope(ex, args[0], 0)
			s := ex.bytesToStr(args[1].(Slice))
			*slot = concatStr(r, s)
			return Tuple{ex.strLen(s), Iface{}}
		},
		"(*bytes.Buffer).WriteByte": func(ex *Exec, fn *ssa.Function, args []Value, caller *Frame) Value {
			slot, r := builderRope(ex, args[0], 0)
			*slot = concatStr(r, Str{Segs: []Seg{{B: []*Term{args[1].(*Term)}}}})
			return Iface{}
		},
		"(*bytes.Buffer).String": func(ex *Exec, fn *ssa.Function, args []Value, caller *Frame) Value {
			if p, ok := args[0].(Ptr); ok && p.P == nil {
				return ex.strLit("<nil>")
			}
			_, r := builderRope(ex, args[0], 0)
			return r
		},
		"(*bytes.Buffer).Bytes": func(ex *Exec, fn *ssa.Function, args []Value, caller *Frame) Value {
			_, r := builderRope(ex, args[0], 0)
			return ex.strToBytes(r)
		},
		"(*bytes.Buffer).Len": func(ex *Exec, fn *ssa.Function, args []Value, caller *Frame) Value {
			_, r := builderRope(ex, args[0], 0)
			return ex.strLen(r)
		},
		"(*bytes.Buffer).Reset": func(ex *Exec, fn *ssa.Function, args []Value, caller *Frame) Value {
			slot, _ := builderRope(ex, args[0], 0)
			*slot = Str{}
			return nil
		},
		// ---- io
		"io.WriteString": func(ex *Exec, fn *ssa.Function, args []Value, caller *Frame) Value {
			s := strArg(ex, args[1], "io.WriteString")
			n := ex.writeTo(args[0], s)
			return Tuple{n, Iface{}}
		},
		// ---- strconv (concrete only)
		"strconv.Itoa": func(ex *Exec, fn *ssa.Function, args []Value, caller *Frame) Value {
			t := args[0].(*Term)
			if !t.IsConst() {
				return ex.freshOpaque('9', 1, 20, "itoa")
			}
			return ex.strLit(strconv.Itoa(int(scoef(t.K, 64))))
		},
		"strconv.Atoi": func(ex *Exec, fn *ssa.Function, args []Value, caller *Frame) Value {
			s := concArg(ex, args[0], "Atoi")
			n, err := strconv.Atoi(s)
			if err != nil {
				return Tuple{ex.ts.Const(64, 0), ex.mkError(ex.strLit(err.Error()))}
			}
			return Tuple{ex.ts.Const(64, uint64(int64(n))), Iface{}}
		},
		// ---- regexp
		"regexp.MustCompile": func(ex *Exec, fn *ssa.Function, args []Value, caller *Frame) Value {
			return ex.regexpCompile(concArg(ex, args[0], "regexp.MustCompile"), true)
		},
		"regexp.Compile": func(ex *Exec, fn *ssa.Function, args []Value, caller *Frame) Value {
			r := ex.regexpCompile(concArg(ex, args[0], "regexp.Compile"), false)
			if p, ok := r.(Ptr); ok && p.P == nil {
				return Tuple{r, ex.mkError(ex.strLit("regexp: compile error"))}
			}
			return Tuple{r, Iface{}}
		},
		"(*regexp.Regexp).Match": func(ex *Exec, fn *ssa.Function, args []Value, caller *Frame) Value {
			return ex.regexpMatch(args[0], ex.bytesToStr(args[1].(Slice)))
		},
		"(*regexp.Regexp).MatchString": func(ex *Exec, fn *ssa.Function, args []Value, caller *Frame) Value {
			return ex.regexpMatch(args[0], strArg(ex, args[1], "MatchString"))
		},
		"(*regexp.Regexp).String": func(ex *Exec, fn *ssa.Function, args []Value, caller *Frame) Value {
			p := ex.derefPtr(args[0], "nil regexp")
			h := (*p.P).(*Host)
			return ex.strLit(h.Data.(*regexHost).src)
		},
	}
	initLibStubs()
}

// writeTo writes a rope to an io.Writer value; returns the byte count term.
func (ex *Exec) writeTo(w Value, s Str) Value {
	iv, ok := w.(Iface)
	if !ok || iv.T == nil {
		ex.mustHold(ex.ts.False(), "nil pointer dereference (write to nil writer)")
		ex.end(endCrash, "nil writer")
	}
	if h, ok := iv.V.(*Host); ok {
		if h.Kind == "os.File" {
			return ex.strLen(s)
		}
	}
	if p, ok := iv.V.(Ptr); ok && p.P != nil {
		if h, ok := (*p.P).(*Host); ok && h.Kind == "os.File" {
			if of, ok := h.Data.(*openFile); ok {
				r := ex.writeModel(of, ex.sliceData(ex.strToBytes(s)))
				return r.(Tuple)[0]
			}
			return ex.strLen(s)
		}
	}
	// prefer WriteString when the dynamic type has it
	if r, ok := ex.callMethod(iv, "WriteString", s); ok {
		if t, ok := r.(Tuple); ok {
			return t[0]
		}
	}
	if r, ok := ex.callMethod(iv, "Write", ex.strToBytes(s)); ok {
		if t, ok := r.(Tuple); ok {
			return t[0]
		}
	}
	ex.unsupported("write to %s", iv.T)
	return nil
}

// hostGlobal provides values for globals of packages whose init is not run.
func (ex *Exec) hostGlobal(g *ssa.Global) (Value, bool) {
	switch g.String() {
	case "os.Stderr", "os.Stdout", "os.Stdin":
		cell := new(Value)
		*cell = &Host{Kind: "os.File", Data: g.Name()}
		return Ptr{P: cell}, true
	}
	return nil, false
}

func (ex *Exec) hostMethod(h *Host, name string) func(ex *Exec, args []Value) Value {
	switch h.Kind + "." + name {
	case "os.File.Write":
		return func(ex *Exec, args []Value) Value {
			return Tuple{ex.callBuiltinLen(args[0]), Iface{}}
		}
	}
	if f := ex.hostMethodExt(h, name); f != nil {
		return f
	}
	return nil
}

func (ex *Exec) callBuiltinLen(v Value) Value {
	switch x := v.(type) {
	case Slice:
		if x.Rope != nil {
			return ex.strLen(*x.Rope)
		}
		return ex.ts.Const(64, uint64(len(x.A)))
	case Str:
		return ex.strLen(x)
	}
	return ex.ts.Const(64, 0)
}

// callsFunc: does fn's body contain a static call to the named function?
func callsFunc(fn *ssa.Function, name string) bool {
	for _, b := range fn.Blocks {
		for _, in := range b.Instrs {
			if c, ok := in.(ssa.CallInstruction); ok {
				if callee := c.Common().StaticCallee(); callee != nil && callee.String() == name {
					return true
				}
			}
		}
	}
	return false
}

package main

// SSA interpreter over symbolic values (structure after x/tools/go/ssa/interp).

import (
	"fmt"
	"go/constant"
	"go/token"
	"go/types"
	"strings"

	"golang.org/x/tools/go/ssa"
)

type deferred struct {
	fn   Value
	args []Value
	pos  token.Pos
}

type Frame struct {
	ex        *Exec
	fn        *ssa.Function
	caller    *Frame
	env       map[ssa.Value]Value
	block     *ssa.BasicBlock
	prevBlock *ssa.BasicBlock
	defers    []deferred
	result    Value
	panicking bool
	panicVal  *goPanic
	isDefer   bool
}

func (fr *Frame) get(v ssa.Value) Value {
	switch x := v.(type) {
	case *ssa.Const:
		return fr.ex.constValue(x)
	case *ssa.Global:
		return Ptr{P: fr.ex.globalCell(x)}
	case *ssa.Function:
		return &Closure{Fn: x}
	case *ssa.Builtin:
		return x
	case nil:
		return nil
	}
	if r, ok := fr.env[v]; ok {
		return r
	}
	panic(fmt.Sprintf("get: no value for %T %s in %s", v, v.Name(), fr.fn))
}

func (ex *Exec) constValue(c *ssa.Const) Value {
	t := c.Type()
	if c.Value == nil {
		return ex.zero(t)
	}
	switch u := t.Underlying().(type) {
	case *types.Basic:
		if w, _, ok := intWidth(u); ok {
			if w == 0 {
				return ex.ts.Bool(constant.BoolVal(c.Value))
			}
			if i, ok := constant.Int64Val(constant.ToInt(c.Value)); ok {
				return ex.ts.Const(w, uint64(i))
			}
			if i, ok := constant.Uint64Val(constant.ToInt(c.Value)); ok {
				return ex.ts.Const(w, i)
			}
			return Poison{"constant out of range"}
		}
		switch {
		case u.Info()&types.IsString != 0:
			return ex.strLit(constant.StringVal(c.Value))
		case u.Info()&types.IsFloat != 0:
			f, _ := constant.Float64Val(c.Value)
			return f
		}
	}
	return Poison{"constant of type " + t.String()}
}

func (ex *Exec) globalCell(g *ssa.Global) *Value {
	if c, ok := ex.globals[g]; ok {
		return c
	}
	ex.ensureInit(g.Pkg)
	if c, ok := ex.globals[g]; ok {
		return c
	}
	c := ex.newGlobalCell(g)
	ex.globals[g] = c
	return c
}

// newGlobalCell: a variable without initialiser starts as its zero value; one
// with an initialiser is poison until the package initialiser has stored it
// (so a package whose init is not executed never yields a wrong value).
func (ex *Exec) newGlobalCell(g *ssa.Global) *Value {
	c := new(Value)
	elem := g.Type().(*types.Pointer).Elem()
	if hv, ok := ex.hostGlobal(g); ok {
		*c = hv
	} else if v, ok := g.Object().(*types.Var); ok && ex.P.hasInit[v] {
		*c = Poison{"uninitialised global " + g.String()}
	} else {
		*c = ex.zero(elem)
	}
	return c
}

// shouldInit: packages whose initialisers are executed. go-vise and harness
// packages strictly; a few pure std packages tolerantly (an initialiser the
// interpreter cannot run leaves its variables poisoned).
func (ex *Exec) shouldInit(path string) bool {
	if isVisePkg(path) || isHarnessPkg(path) {
		return true
	}
	switch path {
	case "errors", "io", "io/fs", "encoding/binary", "encoding/hex", "encoding/base64", "path", "unicode/utf8", "bytes", "strings", "context", "sort", "strconv", "internal/oserror":
		return true
	}
	return false
}

func (ex *Exec) ensureInit(pkg *ssa.Package) {
	if pkg == nil || ex.initDone[pkg] {
		return
	}
	ex.initDone[pkg] = true
	for _, m := range pkg.Members {
		if g, ok := m.(*ssa.Global); ok {
			if _, ok := ex.globals[g]; !ok {
				ex.globals[g] = ex.newGlobalCell(g)
			}
		}
	}
	path := pkg.Pkg.Path()
	if !ex.shouldInit(path) {
		return
	}
	init := pkg.Func("init")
	if init == nil {
		return
	}
	strict := isVisePkg(path) || isHarnessPkg(path)
	saveFn, savePos, saveCrash, saveTry, saveFoot, saveDepth := ex.curFn, ex.curPos, ex.crashOK, ex.tryDepth, ex.trackFoot, ex.depth
	ex.trackFoot = false
	func() {
		defer func() {
			if strict {
				return
			}
			if r := recover(); r != nil {
				if e, ok := r.(*pathEnd); ok && e.kind == endInconclusive {
					return // tolerated: remaining variables stay poisoned
				}
				if _, ok := r.(*goPanic); ok {
					return
				}
				panic(r)
			}
		}()
		if !strict {
			ex.crashOK = true
		}
		ex.runInit(init)
	}()
	ex.curFn, ex.curPos, ex.crashOK, ex.tryDepth, ex.trackFoot, ex.depth = saveFn, savePos, saveCrash, saveTry, saveFoot, saveDepth
}

func (ex *Exec) runInit(init *ssa.Function) {
	ex.inInit++
	ex.callBody(init, nil, nil, nil, token.NoPos, false)
	ex.inInit--
}

func (ex *Exec) runHarness(fn *ssa.Function) {
	ex.ensureInit(fn.Pkg)
	ctx := ex.newCtxValue(fn)
	ex.call(&Closure{Fn: fn}, []Value{ctx}, nil, token.NoPos)
}

// call invokes a function value.
func (ex *Exec) call(fv Value, args []Value, caller *Frame, pos token.Pos) Value {
	switch f := fv.(type) {
	case *Closure:
		if f == nil {
			ex.mustHold(ex.ts.False(), "call of nil function")
			ex.end(endCrash, "call of nil function")
		}
		if f.Host != nil {
			return f.Host(ex, args)
		}
		return ex.callFunction(f.Fn, args, f.Env, caller, pos)
	case *ssa.Builtin:
		return ex.callBuiltin(f, args, caller)
	case Poison:
		ex.unsupported("call of poisoned function value (%s)", f.Why)
	}
	ex.bad("call of", fv); return nil
}

func (ex *Exec) callFunction(fn *ssa.Function, args []Value, env []Value, caller *Frame, pos token.Pos) Value {
	if fn.Pkg != nil && fn.Name() == "init" && fn.Signature.Recv() == nil && fn == fn.Pkg.Func("init") {
		ex.ensureInit(fn.Pkg)
		return nil
	}
	if h := ex.intrinsic(fn); h != nil {
		saveFn, savePos := ex.curFn, ex.curPos
		if pos.IsValid() {
			ex.curPos = pos
		}
		ex.stubs[fn.String()]++
		r := h(ex, fn, args, caller)
		ex.curFn, ex.curPos = saveFn, savePos
		return r
	}
	if fn.Pkg != nil && !ex.initDone[fn.Pkg] {
		ex.ensureInit(fn.Pkg)
	}
	if fn.Blocks == nil {
		return ex.poisonResult(fn, "no body: "+fn.String())
	}
	return ex.callBody(fn, args, env, caller, pos, false)
}

func (ex *Exec) callBody(fn *ssa.Function, args []Value, env []Value, caller *Frame, pos token.Pos, isDefer bool) Value {
	ex.depth++
	if ex.depth > 400 {
		ex.end(endInconclusive, "call depth exceeded in %s", fn)
	}
	fr := &Frame{ex: ex, fn: fn, caller: caller, env: make(map[ssa.Value]Value, 16), isDefer: isDefer}
	for i, p := range fn.Params {
		if i < len(args) {
			fr.env[p] = args[i]
		}
	}
	for i, fv := range fn.FreeVars {
		fr.env[fv] = env[i]
	}
	for _, l := range fn.Locals {
		fr.env[l] = Ptr{P: new(Value)}
	}
	fr.block = fn.Blocks[0]
	saveFn, savePos := ex.curFn, ex.curPos
	for fr.block != nil {
		ex.runFrame(fr)
	}
	ex.curFn, ex.curPos = saveFn, savePos
	ex.depth--
	return fr.result
}

func (ex *Exec) poisonResult(fn *ssa.Function, why string) Value {
	res := fn.Signature.Results()
	switch res.Len() {
	case 0:
		return nil
	case 1:
		return Poison{why}
	}
	t := make(Tuple, res.Len())
	for i := range t {
		t[i] = Poison{why}
	}
	return t
}

func (ex *Exec) runFrame(fr *Frame) {
	defer func() {
		if fr.block == nil {
			return // normal return
		}
		r := recover()
		gp, ok := r.(*goPanic)
		if !ok {
			panic(r) // path end or interpreter bug: do not run interpreted defers
		}
		fr.panicking = true
		fr.panicVal = gp
		ex.runDefers(fr)
		fr.block = fr.fn.Recover
		if fr.block == nil {
			// recovered, no recover block: return zero values / named results
			fr.result = ex.zeroResults(fr.fn)
		}
	}()
	ex.funcSteps[fr.fn] += 1 // entry block (functions of one block are encoded too)
	for {
		ex.curFn = fr.fn
		for _, instr := range fr.block.Instrs {
			ex.steps++
			if ex.steps > ex.maxSteps {
				ex.end(endInconclusive, "instruction budget %d exceeded (unwinding bound)", ex.maxSteps)
			}
			if p := instr.Pos(); p.IsValid() {
				ex.curPos = p
			}
			switch ex.visit(fr, instr) {
			case kReturn:
				return
			case kJump:
				goto nextBlock
			}
		}
		panic("block fell through")
	nextBlock:
		ex.funcSteps[fr.fn] += 1
	}
}

func (ex *Exec) zeroResults(fn *ssa.Function) Value {
	res := fn.Signature.Results()
	switch res.Len() {
	case 0:
		return nil
	case 1:
		return ex.zero(res.At(0).Type())
	}
	t := make(Tuple, res.Len())
	for i := range t {
		t[i] = ex.zero(res.At(i).Type())
	}
	return t
}

func (ex *Exec) runDefers(fr *Frame) {
	for len(fr.defers) > 0 {
		d := fr.defers[len(fr.defers)-1]
		fr.defers = fr.defers[:len(fr.defers)-1]
		ex.runDefer(fr, d)
	}
	if fr.panicking {
		panic(fr.panicVal)
	}
}

func (ex *Exec) runDefer(fr *Frame, d deferred) {
	ok := false
	defer func() {
		if !ok {
			r := recover()
			gp, isGo := r.(*goPanic)
			if !isGo {
				panic(r)
			}
			// deferred call started a new panic
			fr.panicking = true
			fr.panicVal = gp
		}
	}()
	ex.callDeferred(fr, d)
	ok = true
}

func (ex *Exec) callDeferred(fr *Frame, d deferred) {
	switch f := d.fn.(type) {
	case *Closure:
		if f != nil && f.Host == nil && ex.intrinsic(f.Fn) == nil && f.Fn.Blocks != nil {
			// mark the callee frame as deferred so recover() works
			ex.callFunctionDeferred(f.Fn, d.args, f.Env, fr, d.pos)
			return
		}
	}
	ex.call(d.fn, d.args, fr, d.pos)
}

func (ex *Exec) callFunctionDeferred(fn *ssa.Function, args []Value, env []Value, caller *Frame, pos token.Pos) Value {
	return ex.callBody(fn, args, env, caller, pos, true)
}

type continuation int

const (
	kNext continuation = iota
	kReturn
	kJump
)

func (ex *Exec) visit(fr *Frame, instr ssa.Instruction) continuation {
	switch in := instr.(type) {
	case *ssa.DebugRef:
	case *ssa.UnOp:
		fr.env[in] = ex.unop(in, fr.get(in.X))
	case *ssa.BinOp:
		fr.env[in] = ex.binop(in.Op, in.X.Type(), fr.get(in.X), fr.get(in.Y))
	case *ssa.Call:
		fn, args := ex.prepareCall(fr, &in.Call)
		fr.env[in] = ex.call(fn, args, fr, in.Pos())
	case *ssa.ChangeInterface:
		fr.env[in] = fr.get(in.X)
	case *ssa.ChangeType:
		fr.env[in] = fr.get(in.X)
	case *ssa.Convert:
		fr.env[in] = ex.conv(in.Type(), in.X.Type(), fr.get(in.X))
	case *ssa.SliceToArrayPointer:
		ex.unsupported("SliceToArrayPointer")
	case *ssa.MakeInterface:
		fr.env[in] = Iface{T: in.X.Type(), V: fr.get(in.X)}
	case *ssa.Extract:
		tv := fr.get(in.Tuple)
		if p, ok := tv.(Poison); ok {
			fr.env[in] = p
		} else {
			fr.env[in] = tv.(Tuple)[in.Index]
		}
	case *ssa.Slice:
		fr.env[in] = ex.sliceOp(in, fr.get(in.X), fr.get(in.Low), fr.get(in.High), fr.get(in.Max))
	case *ssa.Return:
		switch len(in.Results) {
		case 0:
		case 1:
			fr.result = fr.get(in.Results[0])
		default:
			res := make(Tuple, len(in.Results))
			for i, r := range in.Results {
				res[i] = fr.get(r)
			}
			fr.result = res
		}
		fr.block = nil
		return kReturn
	case *ssa.RunDefers:
		ex.runDefers(fr)
	case *ssa.Panic:
		v := fr.get(in.X)
		what := "explicit panic"
		if iv, ok := v.(Iface); ok {
			what = "explicit panic: " + ex.panicText(iv)
		}
		if ex.tryDepth == 0 && !ex.crashOK {
			// an explicit panic reached outside a Try scope is a crash
			ex.oblige(ex.ts.False(), "panic: "+what)
		}
		panic(&goPanic{v: v, what: what, pos: in.Pos()})
	case *ssa.Send:
		ex.unsupported("channel send")
	case *ssa.Store:
		p := fr.get(in.Addr)
		ex.store(p, fr.get(in.Val))
	case *ssa.If:
		c := fr.get(in.Cond)
		ct, ok := c.(*Term)
		if !ok {
			if p, isP := c.(Poison); isP {
				ex.unsupported("branch on unsupported value (%s)", p.Why)
			}
			ex.bad("if on", c)
		}
		succ := 1
		if ex.branch(ct) {
			succ = 0
		}
		fr.prevBlock, fr.block = fr.block, fr.block.Succs[succ]
		return kJump
	case *ssa.Jump:
		fr.prevBlock, fr.block = fr.block, fr.block.Succs[0]
		return kJump
	case *ssa.Defer:
		fn, args := ex.prepareCall(fr, &in.Call)
		fr.defers = append(fr.defers, deferred{fn: fn, args: args, pos: in.Pos()})
	case *ssa.Go:
		ex.unsupported("go statement")
	case *ssa.MakeChan:
		fr.env[in] = Poison{"chan"}
	case *ssa.Alloc:
		var cell *Value
		if in.Heap {
			cell = new(Value)
			fr.env[in] = Ptr{P: cell}
		} else {
			cell = fr.env[in].(Ptr).P
		}
		*cell = ex.zero(in.Type().Underlying().(*types.Pointer).Elem())
	case *ssa.MakeSlice:
		n := ex.concreteInt(fr.get(in.Len), "make len")
		c := ex.concreteInt(fr.get(in.Cap), "make cap")
		if n < 0 || c < n || c > 1<<24 {
			ex.mustHold(ex.ts.False(), fmt.Sprintf("makeslice: len out of range (len %d cap %d)", n, c))
		}
		elt := in.Type().Underlying().(*types.Slice).Elem()
		a := make([]Value, c)
		for i := range a {
			a[i] = ex.zero(elt)
		}
		fr.env[in] = Slice{A: a[:n]}
	case *ssa.MakeMap:
		mt := in.Type().Underlying().(*types.Map)
		fr.env[in] = &MapV{KT: mt.Key(), VT: mt.Elem(), idx: make(map[string]int)}
	case *ssa.Range:
		fr.env[in] = ex.rangeIter(fr.get(in.X), in.X.Type())
	case *ssa.Next:
		fr.env[in] = fr.get(in.Iter).(*iterV).next(ex)
	case *ssa.FieldAddr:
		p := ex.derefPtr(fr.get(in.X), "nil pointer dereference")
		s, ok := (*p.P).(Struct)
		if !ok {
			po, isP := (*p.P).(Poison)
			if isP && strings.HasPrefix(po.Why, "uninitialised global ") && fr.fn.Name() == "init" {
				// the package initialiser fills a struct-typed variable field
				// by field: from here on it is what has been stored so far
				// over the zero value
				elem := in.X.Type().Underlying().(*types.Pointer).Elem()
				*p.P = ex.zero(elem)
				s, ok = (*p.P).(Struct)
			}
			if !ok {
				if isP {
					ex.unsupported("field of unsupported value (%s)", po.Why)
				}
				ex.bad("FieldAddr on", *p.P)
			}
		}
		fr.env[in] = Ptr{P: &s[in.Field]}
	case *ssa.Field:
		x := fr.get(in.X)
		if po, isP := x.(Poison); isP {
			fr.env[in] = po
		} else {
			fr.env[in] = copyVal(x.(Struct)[in.Field])
		}
	case *ssa.IndexAddr:
		fr.env[in] = ex.indexAddr(fr.get(in.X), fr.get(in.Index))
	case *ssa.Index:
		x := fr.get(in.X)
		idx := fr.get(in.Index).(*Term)
		switch a := x.(type) {
		case Array:
			i := ex.boundedIndex(idx, len(a), isSigned(in.Index.Type()))
			fr.env[in] = copyVal(a[i])
		case Str:
			ex.boundsStr(idx, a, isSigned(in.Index.Type()), false)
			fr.env[in] = ex.indexStr(a, ex.toInt64(idx, in.Index.Type()))
		default:
			ex.unsupported("Index on %T", x)
		}
	case *ssa.Lookup:
		fr.env[in] = ex.lookup(in, fr.get(in.X), fr.get(in.Index))
	case *ssa.MapUpdate:
		ex.mapUpdate(fr.get(in.Map), fr.get(in.Key), fr.get(in.Value))
	case *ssa.TypeAssert:
		fr.env[in] = ex.typeAssert(in, fr.get(in.X))
	case *ssa.MakeClosure:
		binds := make([]Value, len(in.Bindings))
		for i, b := range in.Bindings {
			binds[i] = fr.get(b)
		}
		fr.env[in] = &Closure{Fn: in.Fn.(*ssa.Function), Env: binds}
	case *ssa.Phi:
		for i, pred := range in.Block().Preds {
			if fr.prevBlock == pred {
				fr.env[in] = fr.get(in.Edges[i])
				break
			}
		}
	case *ssa.Select:
		ex.unsupported("select")
	case *ssa.MultiConvert:
		ex.unsupported("MultiConvert")
	default:
		ex.unsupported("instruction %T", instr)
	}
	return kNext
}

func isSigned(t types.Type) bool {
	_, s, _ := isInteger(t)
	return s
}

func (ex *Exec) panicText(iv Iface) string {
	if s, ok := iv.V.(Str); ok {
		return s.Describe()
	}
	return describe(iv)
}

func (ex *Exec) concreteInt(v Value, what string) int {
	t, ok := v.(*Term)
	if !ok {
		ex.unsupported("%s: not an integer (%T)", what, v)
	}
	if !t.IsConst() {
		return int(int64(ex.concretize(t, 0, 1<<20)))
	}
	return int(scoef(t.K, t.W))
}

func (ex *Exec) derefPtr(v Value, what string) Ptr {
	p, ok := v.(Ptr)
	if !ok {
		if po, isP := v.(Poison); isP {
			ex.unsupported("dereference of unsupported value (%s)", po.Why)
		}
		ex.bad("dereference of", v)
	}
	if p.P == nil {
		ex.mustHold(ex.ts.False(), what)
		ex.end(endCrash, what)
	}
	return p
}

func (ex *Exec) store(pv Value, v Value) {
	p := ex.derefPtr(pv, "nil pointer dereference (store)")
	if ex.trackFoot {
		ex.footStore(p.P)
	}
	storeInto(p.P, v)
}

func (ex *Exec) prepareCall(fr *Frame, c *ssa.CallCommon) (Value, []Value) {
	v := fr.get(c.Value)
	var args []Value
	var fn Value
	if c.Method == nil {
		fn = v
	} else {
		// interface method invocation
		recv, ok := v.(Iface)
		if !ok {
			if po, isP := v.(Poison); isP {
				ex.unsupported("method call on unsupported value (%s)", po.Why)
			}
			ex.bad("invoke on", v)
		}
		if recv.T == nil {
			ex.mustHold(ex.ts.False(), "nil pointer dereference (method call on nil interface)")
			ex.end(endCrash, "method call on nil interface")
		}
		if h, ok := recv.V.(*Host); ok {
			fn = &Closure{Host: ex.hostMethod(h, c.Method.Name()), HName: h.Kind + "." + c.Method.Name()}
		} else {
			m := ex.P.prog.LookupMethod(recv.T, c.Method.Pkg(), c.Method.Name())
			if m == nil {
				ex.unsupported("method %s not found on %s", c.Method.Name(), recv.T)
			}
			fn = &Closure{Fn: m}
			args = append(args, recv.V)
		}
	}
	for _, a := range c.Args {
		args = append(args, fr.get(a))
	}
	return fn, args
}

// ------------------------------------------------------------------- indexing

func (ex *Exec) toInt64(t *Term, typ types.Type) *Term {
	if t.W == 64 {
		return t
	}
	if isSigned(typ) {
		return ex.ts.Sext(t, 64)
	}
	return ex.ts.Zext(t, 64)
}

// boundedIndex raises the bounds obligation 0 <= idx < n and returns the
// concrete index on this path.
func (ex *Exec) boundedIndex(idx *Term, n int, signed bool) int {
	ts := ex.ts
	nn := ts.Const(idx.W, uint64(n))
	if idx.IsConst() {
		v := int64(idx.K)
		if signed {
			v = scoef(idx.K, idx.W)
		}
		if v < 0 || v >= int64(n) {
			ex.mustHold(ts.False(), "index out of range")
			ex.end(endCrash, "index out of range")
		}
		return int(v)
	}
	// unsigned comparison covers negative signed values too
	ex.mustHold(ts.Ult(idx, nn), "index out of range")
	if n == 0 {
		ex.end(endInfeasible, "index into empty")
	}
	return int(ex.concretize(idx, 0, uint64(n-1)))
}

func (ex *Exec) boundsStr(idx *Term, s Str, signed bool, inclusive bool) {
	ts := ex.ts
	l := ex.strLen(s)
	var i64 *Term
	if idx.W == 64 {
		i64 = idx
	} else if signed {
		i64 = ts.Sext(idx, 64)
	} else {
		i64 = ts.Zext(idx, 64)
	}
	if inclusive {
		ex.mustHold(ts.Ule(i64, l), "slice bounds out of range")
	} else {
		ex.mustHold(ts.Ult(i64, l), "index out of range")
	}
}

func (ex *Exec) indexAddr(x Value, iv Value) Value {
	idx, ok := iv.(*Term)
	if !ok {
		ex.unsupported("index of type %T", iv)
	}
	switch a := x.(type) {
	case Slice:
		if a.Rope != nil {
			// read access to a byte of a rope-backed slice (a copy: writes
			// through this address are not supported and would be lost)
			i64 := ex.toInt64(idx, types.Typ[types.Int])
			ex.mustHold(ex.ts.Ult(i64, ex.strLen(*a.Rope)), "index out of range")
			cell := new(Value)
			*cell = ex.indexStr(*a.Rope, i64)
			return Ptr{P: cell}
		}
		i := ex.boundedIndex(idx, len(a.A), true)
		return Ptr{P: &a.A[i]}
	case Ptr:
		p := ex.derefPtr(a, "nil pointer dereference (index)")
		arr, ok := (*p.P).(Array)
		if !ok {
			ex.bad("IndexAddr on pointer to", *p.P)
		}
		i := ex.boundedIndex(idx, len(arr), true)
		return Ptr{P: &arr[i]}
	case Poison:
		ex.unsupported("index of unsupported value (%s)", a.Why)
	}
	ex.bad("IndexAddr on", x); return nil
}

func (ex *Exec) sliceOp(in *ssa.Slice, x, lo, hi, max Value) Value {
	ts := ex.ts
	get := func(v Value, op ssa.Value) *Term {
		if v == nil {
			return nil
		}
		t, ok := v.(*Term)
		if !ok {
			ex.unsupported("slice bound of type %T", v)
		}
		return ex.toInt64(t, op.Type())
	}
	l, h, m := get(lo, in.Low), get(hi, in.High), get(max, in.Max)
	switch a := x.(type) {
	case Str:
		n := ex.strLen(a)
		if h != nil {
			ex.mustHold(ts.Ule(h, n), "slice bounds out of range")
		} else {
			h = nil
		}
		if l != nil {
			top := n
			if h != nil {
				top = h
			}
			ex.mustHold(ts.Ule(l, top), "slice bounds out of range")
		}
		return ex.sliceStr(a, l, h)
	case Slice:
		if a.Rope != nil {
			n := ex.strLen(*a.Rope)
			if h != nil {
				ex.mustHold(ts.Ule(h, n), "slice bounds out of range")
			}
			if l != nil {
				top := n
				if h != nil {
					top = h
				}
				ex.mustHold(ts.Ule(l, top), "slice bounds out of range")
			}
			r := ex.sliceStr(*a.Rope, l, h)
			return Slice{Rope: &r}
		}
		var elem types.Type
		if st, ok := in.X.Type().Underlying().(*types.Slice); ok {
			elem = st.Elem()
		}
		return ex.sliceSlice(a.A, a.Nil, l, h, m, elem)
	case Ptr:
		p := ex.derefPtr(a, "nil pointer dereference (slice of array)")
		arr := (*p.P).(Array)
		return ex.sliceSlice([]Value(arr), false, l, h, m, nil)
	case Poison:
		return a
	}
	ex.bad("slice of", x); return nil
}

func (ex *Exec) sliceSlice(a []Value, isNil bool, l, h, m *Term, elem types.Type) Value {
	ts := ex.ts
	capA := cap(a)
	lenA := len(a)
	// Go: 0 <= lo <= hi <= max <= cap
	maxC := capA
	if m != nil {
		ex.mustHold(ts.Ule(m, ts.Const(64, uint64(capA))), "slice bounds out of range")
		maxC = int(ex.concretize(m, 0, uint64(capA)))
	}
	hiC := lenA
	if h != nil {
		ex.mustHold(ts.Ule(h, ts.Const(64, uint64(maxC))), "slice bounds out of range")
		hiC = int(ex.concretize(h, 0, uint64(maxC)))
	}
	loC := 0
	if l != nil {
		ex.mustHold(ts.Ule(l, ts.Const(64, uint64(hiC))), "slice bounds out of range")
		loC = int(ex.concretize(l, 0, uint64(hiC)))
	}
	if isNil && loC == 0 && hiC == 0 {
		return Slice{Nil: true}
	}
	r := a[:capA][loC:hiC:maxC]
	if elem != nil {
		// cells of the spare capacity that were never written hold the
		// element type's zero value once a re-slice exposes them
		for i := range r {
			if r[i] == nil {
				r[i] = ex.zero(elem)
			}
		}
	}
	return Slice{A: r}
}

// ----------------------------------------------------------------------- maps

func (ex *Exec) keyEq(a, b Value) *Term {
	r := ex.equal(a, b)
	t, ok := r.(*Term)
	if !ok {
		ex.unsupported("map key comparison not decidable (%s)", describe(r))
	}
	return t
}

// mapFind returns the index of key in m, or -1.
func (ex *Exec) mapFind(m *MapV, key Value) int {
	if m == nil {
		return -1
	}
	h, conc := hashKey(key)
	if conc && len(m.idx) == len(m.keys) {
		if i, ok := m.idx[h]; ok {
			return i
		}
		return -1
	}
	for i, k := range m.keys {
		if conc {
			if hk, ok := hashKey(k); ok {
				if hk == h {
					return i
				}
				continue
			}
		}
		if ex.branch(ex.keyEq(k, key)) {
			return i
		}
	}
	return -1
}

func (ex *Exec) lookup(in *ssa.Lookup, x, key Value) Value {
	switch m := x.(type) {
	case *MapV:
		var v Value
		ok := false
		if i := ex.mapFind(m, key); i >= 0 {
			v = copyVal(m.vals[i])
			ok = true
		} else {
			v = ex.zero(in.X.Type().Underlying().(*types.Map).Elem())
		}
		if in.CommaOk {
			return Tuple{v, ex.ts.Bool(ok)}
		}
		return v
	case Str:
		idx := key.(*Term)
		ex.boundsStr(idx, m, isSigned(in.Index.Type()), false)
		return ex.indexStr(m, ex.toInt64(idx, in.Index.Type()))
	case Poison:
		if in.CommaOk {
			return Tuple{m, m}
		}
		return m
	}
	ex.bad("lookup on", x); return nil
}

func (ex *Exec) mapUpdate(mv, key, val Value) {
	m, ok := mv.(*MapV)
	if !ok {
		if po, isP := mv.(Poison); isP {
			ex.unsupported("update of unsupported map (%s)", po.Why)
		}
		ex.bad("MapUpdate on", mv)
	}
	if m == nil {
		ex.mustHold(ex.ts.False(), "assignment to entry in nil map")
		ex.end(endCrash, "assignment to entry in nil map")
	}
	if ex.trackFoot {
		ex.footMap(m)
	}
	if i := ex.mapFind(m, key); i >= 0 {
		m.vals[i] = copyVal(val)
		return
	}
	m.keys = append(m.keys, copyVal(key))
	m.vals = append(m.vals, copyVal(val))
	if h, ok := hashKey(key); ok {
		m.idx[h] = len(m.keys) - 1
	}
}

func (ex *Exec) mapDelete(m *MapV, key Value) {
	if m == nil {
		return
	}
	if ex.trackFoot {
		ex.footMap(m)
	}
	i := ex.mapFind(m, key)
	if i < 0 {
		return
	}
	m.keys = append(m.keys[:i:i], m.keys[i+1:]...)
	m.vals = append(m.vals[:i:i], m.vals[i+1:]...)
	m.idx = make(map[string]int)
	for j, k := range m.keys {
		if h, ok := hashKey(k); ok {
			m.idx[h] = j
		}
	}
}

type iterV struct {
	keys []Value
	vals []Value
	pos  int
	str  bool
	runes []rune
	offs  []int
}

func (ex *Exec) rangeIter(x Value, t types.Type) Value {
	switch m := x.(type) {
	case *MapV:
		it := &iterV{}
		if m != nil {
			it.keys = append([]Value{}, m.keys...)
			it.vals = append([]Value{}, m.vals...)
			if ex.mapOrder == 1 {
				for i, j := 0, len(it.keys)-1; i < j; i, j = i+1, j-1 {
					it.keys[i], it.keys[j] = it.keys[j], it.keys[i]
					it.vals[i], it.vals[j] = it.vals[j], it.vals[i]
				}
			}
		}
		return it
	case Str:
		s, ok := m.Concrete()
		if !ok {
			ex.unsupported("range over symbolic string")
		}
		it := &iterV{str: true}
		for i, r := range s {
			it.runes = append(it.runes, r)
			it.offs = append(it.offs, i)
		}
		return it
	}
	ex.unsupported("range over %T", x)
	return nil
}

func (it *iterV) next(ex *Exec) Value {
	ts := ex.ts
	if it.str {
		if it.pos >= len(it.runes) {
			return Tuple{ts.False(), ts.Const(64, 0), ts.Const(32, 0)}
		}
		r := Tuple{ts.True(), ts.Const(64, uint64(it.offs[it.pos])), ts.Const(32, uint64(it.runes[it.pos]))}
		it.pos++
		return r
	}
	if it.pos >= len(it.keys) {
		return Tuple{ts.False(), nil, nil}
	}
	r := Tuple{ts.True(), it.keys[it.pos], it.vals[it.pos]}
	it.pos++
	return r
}

// --------------------------------------------------------------- type asserts

func (ex *Exec) implements(dyn types.Type, iface *types.Interface) bool {
	if iface.NumMethods() == 0 {
		return true
	}
	ms := ex.P.prog.MethodSets.MethodSet(dyn)
	for i := 0; i < iface.NumMethods(); i++ {
		m := iface.Method(i)
		sel := ms.Lookup(m.Pkg(), m.Name())
		if sel == nil {
			return false
		}
	}
	return true
}

func (ex *Exec) typeAssert(in *ssa.TypeAssert, x Value) Value {
	v, ok := x.(Iface)
	if !ok {
		if po, isP := x.(Poison); isP {
			if in.CommaOk {
				return Tuple{po, po}
			}
			return po
		}
		ex.bad("TypeAssert on", x)
	}
	good := false
	var res Value
	if it, isIface := in.AssertedType.Underlying().(*types.Interface); isIface {
		if v.T != nil {
			if _, isHost := v.V.(*Host); isHost {
				good = true
			} else {
				good = ex.implements(v.T, it)
			}
		}
		res = v
	} else {
		good = v.T != nil && types.Identical(v.T, in.AssertedType)
		res = v.V
	}
	if in.CommaOk {
		if !good {
			res = ex.zero(in.AssertedType)
		}
		return Tuple{copyVal(res), ex.ts.Bool(good)}
	}
	if !good {
		ex.mustHold(ex.ts.False(), "interface conversion: type assertion failed")
		ex.end(endCrash, "type assertion failed")
	}
	return copyVal(res)
}

// ------------------------------------------------------------------- builtins

func (ex *Exec) callBuiltin(b *ssa.Builtin, args []Value, caller *Frame) Value {
	ts := ex.ts
	switch b.Name() {
	case "len":
		switch x := args[0].(type) {
		case Str:
			return ex.strLen(x)
		case Slice:
			if x.Rope != nil {
				return ex.strLen(*x.Rope)
			}
			return ts.Const(64, uint64(len(x.A)))
		case *MapV:
			if x == nil {
				return ts.Const(64, 0)
			}
			return ts.Const(64, uint64(len(x.keys)))
		case Array:
			return ts.Const(64, uint64(len(x)))
		case Ptr:
			return ts.Const(64, uint64(len((*x.P).(Array))))
		case Poison:
			return x
		}
	case "cap":
		switch x := args[0].(type) {
		case Slice:
			if x.Rope != nil {
				return ex.strLen(*x.Rope)
			}
			return ts.Const(64, uint64(cap(x.A)))
		case Array:
			return ts.Const(64, uint64(len(x)))
		case Ptr:
			return ts.Const(64, uint64(len((*x.P).(Array))))
		}
	case "append":
		return ex.appendOp(args[0], args[1])
	case "copy":
		dst, ok := args[0].(Slice)
		if !ok {
			ex.unsupported("copy into %T", args[0])
		}
		var src []Value
		switch s := args[1].(type) {
		case Slice:
			if s.Rope != nil {
				ex.unsupported("copy from rope-backed []byte")
			}
			src = s.A
		case Str:
			src = ex.strToBytes(s).(Slice).A
		}
		if ex.trackFoot && len(src) > 0 && len(dst.A) > 0 {
			ex.footStore(&dst.A[0])
		}
		n := copy(dst.A, src)
		return ts.Const(64, uint64(n))
	case "delete":
		m, _ := args[0].(*MapV)
		ex.mapDelete(m, args[1])
		return nil
	case "print", "println":
		return nil
	case "recover":
		return ex.doRecover(caller)
	case "ssa:wrapnilchk":
		if p, ok := args[0].(Ptr); ok && p.P == nil {
			ex.mustHold(ts.False(), "nil pointer dereference (method value)")
			ex.end(endCrash, "nil deref")
		}
		return args[0]
	case "min", "max":
		a, ok1 := args[0].(*Term)
		if !ok1 {
			ex.unsupported("min/max on %T", args[0])
		}
		r := a
		sig := b.Type().(*types.Signature)
		signed := isSigned(sig.Params().At(0).Type())
		for _, o := range args[1:] {
			ot := o.(*Term)
			var lt *Term
			if signed {
				lt = ts.Slt(ot, r)
			} else {
				lt = ts.Ult(ot, r)
			}
			if b.Name() == "max" {
				lt = ts.BNot(lt)
				if ot == r {
					continue
				}
			}
			r = ts.Ite(lt, ot, r)
		}
		return r
	case "clear":
		switch x := args[0].(type) {
		case *MapV:
			if x != nil {
				x.keys, x.vals, x.idx = nil, nil, make(map[string]int)
			}
		default:
			ex.unsupported("clear on %T", x)
		}
		return nil
	}
	ex.unsupported("builtin %s on %T", b.Name(), args[0])
	return nil
}

func (ex *Exec) doRecover(caller *Frame) Value {
	if caller != nil && !caller.panicking && caller.isDefer && caller.caller != nil && caller.caller.panicking {
		caller.caller.panicking = false
		gp := caller.caller.panicVal
		caller.caller.panicVal = nil
		if iv, ok := gp.v.(Iface); ok {
			return iv
		}
		return Iface{T: types.Typ[types.String], V: ex.strLit(gp.what)}
	}
	return Iface{}
}

func (ex *Exec) appendOp(a0, a1 Value) Value {
	if p, ok := a0.(Poison); ok {
		return p
	}
	dst, ok := a0.(Slice)
	if !ok {
		ex.unsupported("append to %T", a0)
	}
	var src []Value
	switch s := a1.(type) {
	case Slice:
		if s.Rope != nil {
			// appending rope bytes: result is rope-backed
			if dst.Rope != nil {
				r := concatStr(*dst.Rope, *s.Rope)
				return Slice{Rope: &r}
			}
			r := concatStr(ex.bytesToStr(dst), *s.Rope)
			return Slice{Rope: &r}
		}
		src = s.A
	case Str:
		if s.HasOpaque() {
			var base Str
			if dst.Rope != nil {
				base = *dst.Rope
			} else {
				base = ex.bytesToStr(dst)
			}
			r := concatStr(base, s)
			return Slice{Rope: &r}
		}
		src = ex.strToBytes(s).(Slice).A
	case Poison:
		return s
	default:
		ex.unsupported("append of %T", a1)
	}
	if dst.Rope != nil {
		r := concatStr(*dst.Rope, ex.bytesToStr(Slice{A: src}))
		return Slice{Rope: &r}
	}
	if len(src) == 0 {
		return dst
	}
	if len(dst.A)+len(src) <= cap(dst.A) {
		// in place: writes into the spare capacity of the shared backing array
		if ex.trackFoot {
			full := dst.A[:cap(dst.A)]
			ex.footStore(&full[len(dst.A)])
		}
		n := len(dst.A)
		out := dst.A[:n+len(src)]
		for i, v := range src {
			out[n+i] = copyVal(v)
		}
		return Slice{A: out}
	}
	// grow: fresh array (capacity as Go would roughly choose; its value is
	// unobservable except through aliasing of private arrays)
	nc := 2 * cap(dst.A)
	if nc < len(dst.A)+len(src) {
		nc = len(dst.A) + len(src)
	}
	if nc < 8 && len(dst.A)+len(src) <= 8 {
		nc = 8
	}
	na := make([]Value, len(dst.A)+len(src), nc)
	for i, v := range dst.A {
		na[i] = v
	}
	for i, v := range src {
		na[len(dst.A)+i] = copyVal(v)
	}
	return Slice{A: na}
}

// helper used by intrinsics to describe the current location
func (ex *Exec) where() string {
	var sb strings.Builder
	if ex.curFn != nil {
		sb.WriteString(ex.curFn.String())
		sb.WriteString(" ")
	}
	sb.WriteString(ex.P.pos(ex.curPos))
	return sb.String()
}

// bad reports a value of unexpected shape: an unsupported (poisoned) value
// makes the path inconclusive, anything else is an interpreter error.
func (ex *Exec) bad(what string, v Value) {
	if p, ok := v.(Poison); ok {
		ex.unsupported("%s unsupported value (%s)", what, p.Why)
	}
	panic(fmt.Sprintf("%s %T at %s", what, v, ex.where()))
}

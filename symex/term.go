package main

// Hash-consed SMT terms over fixed-size bit-vectors and Booleans.
//
// Width W == 0 means sort Bool. Sums are kept in a canonical n-ary linear
// form (OSum) which is sound modulo 2^W whatever the operand values are; each
// term also carries a conservative unsigned interval, and a sum whose integer
// value provably lies inside [0, 2^W) is flagged exact, so that comparisons
// and no-op truncations/extensions can be decided without the solver. Only
// definite answers are used; everything else becomes a solver query.

import (
	"fmt"
	"math/bits"
	"sort"
	"strings"
)

type Op uint8

const (
	OConst Op = iota
	OVar
	OSum
	OMul
	OUDiv
	OURem
	OSDiv
	OSRem
	OAnd
	OOr
	OXor
	OShl
	OLShr
	OAShr
	ONot
	OExtract // A, K = low bit
	OZext
	OSext
	OIte
	OEq
	OUlt
	OUle
	OSlt
	OSle
	OBNot
	OBAnd
	OBOr
)

type Term struct {
	Op    Op
	W     uint8
	K     uint64
	Name  string
	A, B  *Term
	C     *Term
	Args  []*Term
	Coefs []uint64
	id    int
	lo    uint64
	hi    uint64
	exact bool // integer value of the linear form == bit-vector value
	ik    int64 // OSum: the constant as an integer when exact
	sh    uint64 // structural hash (independent of term ids), 0 = not yet computed
}

func mask(w uint8) uint64 {
	if w >= 64 {
		return ^uint64(0)
	}
	if w == 0 {
		return 1
	}
	return (uint64(1) << w) - 1
}

// TermStore hash-conses terms. One per worker (not goroutine safe).
type TermStore struct {
	tab    map[string]*Term
	nextID int
	consts map[uint64]*Term // small-constant cache keyed by w<<56|v (v < 2^16)
	varRng map[string][2]uint64
}

func NewTermStore() *TermStore {
	return &TermStore{tab: make(map[string]*Term), consts: make(map[uint64]*Term), varRng: make(map[string][2]uint64)}
}

func (ts *TermStore) intern(key string, mk func() *Term) *Term {
	if t, ok := ts.tab[key]; ok {
		return t
	}
	t := mk()
	ts.nextID++
	t.id = ts.nextID
	ts.tab[key] = t
	return t
}

func (ts *TermStore) Const(w uint8, v uint64) *Term {
	v &= mask(w)
	if v < 1<<16 {
		ck := uint64(w)<<56 | v
		if t, ok := ts.consts[ck]; ok {
			return t
		}
		ts.nextID++
		t := &Term{Op: OConst, W: w, K: v, id: ts.nextID, lo: v, hi: v, exact: true}
		ts.consts[ck] = t
		return t
	}
	return ts.intern(fmt.Sprintf("c%d:%d", w, v), func() *Term {
		return &Term{Op: OConst, W: w, K: v, lo: v, hi: v, exact: true}
	})
}

func (ts *TermStore) True() *Term  { return ts.Const(0, 1) }
func (ts *TermStore) False() *Term { return ts.Const(0, 0) }
func (ts *TermStore) Bool(b bool) *Term {
	if b {
		return ts.True()
	}
	return ts.False()
}

// Var declares (or returns) a variable with an unsigned range. The range is
// part of the declaration: the explorer asserts it to the solver.
func (ts *TermStore) Var(name string, w uint8, lo, hi uint64) *Term {
	return ts.intern("v"+name, func() *Term {
		if w == 0 {
			lo, hi = 0, 1
		}
		ts.varRng[name] = [2]uint64{lo, hi}
		return &Term{Op: OVar, W: w, Name: name, lo: lo, hi: hi, exact: true}
	})
}

func (t *Term) IsConst() bool { return t.Op == OConst }
func (t *Term) IsTrue() bool  { return t.Op == OConst && t.W == 0 && t.K == 1 }
func (t *Term) IsFalse() bool { return t.Op == OConst && t.W == 0 && t.K == 0 }

// ---------------------------------------------------------------- linear sums

type lin struct {
	k     uint64
	terms []*Term
	coefs []uint64
}

func (ts *TermStore) linOf(t *Term) lin {
	switch t.Op {
	case OConst:
		return lin{k: t.K}
	case OSum:
		return lin{k: t.K, terms: t.Args, coefs: t.Coefs}
	}
	return lin{terms: []*Term{t}, coefs: []uint64{1}}
}

func linCombine(w uint8, a lin, ca uint64, b lin, cb uint64) lin {
	m := mask(w)
	acc := make(map[*Term]uint64, len(a.terms)+len(b.terms))
	var order []*Term
	add := func(l lin, c uint64) {
		for i, t := range l.terms {
			if _, ok := acc[t]; !ok {
				order = append(order, t)
			}
			acc[t] = (acc[t] + l.coefs[i]*c) & m
		}
	}
	add(a, ca)
	add(b, cb)
	r := lin{k: (a.k*ca + b.k*cb) & m}
	sort.Slice(order, func(i, j int) bool { return order[i].id < order[j].id })
	for _, t := range order {
		if acc[t] != 0 {
			r.terms = append(r.terms, t)
			r.coefs = append(r.coefs, acc[t])
		}
	}
	return r
}

// signed interpretation of a coefficient at width w
func scoef(c uint64, w uint8) int64 {
	if w < 64 && c&(uint64(1)<<(w-1)) != 0 {
		return int64(c | ^mask(w))
	}
	return int64(c)
}

const safeMag = uint64(1) << 60

// integer interval of the linear form k + Σ scoef(c_i)·t_i for a given integer
// reading k of the constant; ok=false if it cannot be computed safely
func linIntervalK(w uint8, l lin, k int64) (lo, hi int64, ok bool) {
	if k <= -int64(safeMag) || k >= int64(safeMag) {
		return 0, 0, false
	}
	lo, hi = k, k
	for i, t := range l.terms {
		c := scoef(l.coefs[i], w)
		if t.hi >= safeMag {
			return 0, 0, false
		}
		ac := c
		if ac < 0 {
			ac = -ac
		}
		if uint64(ac) >= safeMag {
			return 0, 0, false
		}
		h1, l1 := bits.Mul64(uint64(ac), t.hi)
		if h1 != 0 || l1 >= safeMag {
			return 0, 0, false
		}
		tlo, thi := int64(t.lo), int64(t.hi)
		if c >= 0 {
			lo += c * tlo
			hi += c * thi
		} else {
			lo += c * thi
			hi += c * tlo
		}
		if lo <= -int64(safeMag) || hi >= int64(safeMag) {
			return 0, 0, false
		}
	}
	return lo, hi, true
}

// exactReading looks for the integer reading of the constant (as a positive
// or as a negative offset) under which the form provably stays in [0, 2^w).
func exactReading(w uint8, l lin) (lo, hi, k int64, ok bool) {
	try := func(k int64) (int64, int64, bool) {
		lo, hi, ok := linIntervalK(w, l, k)
		if ok && lo >= 0 && (w == 64 || uint64(hi) <= mask(w)) {
			return lo, hi, true
		}
		return 0, 0, false
	}
	if l.k < safeMag {
		if lo, hi, ok := try(int64(l.k)); ok {
			return lo, hi, int64(l.k), true
		}
	}
	if w > 0 && l.k&(uint64(1)<<(w-1)) != 0 {
		k := scoef(l.k, w)
		if lo, hi, ok := try(k); ok {
			return lo, hi, k, true
		}
	}
	return 0, 0, 0, false
}

func (ts *TermStore) fromLin(w uint8, l lin) *Term {
	if len(l.terms) == 0 {
		return ts.Const(w, l.k)
	}
	if len(l.terms) == 1 && l.coefs[0] == 1 && l.k == 0 {
		return l.terms[0]
	}
	var sb strings.Builder
	fmt.Fprintf(&sb, "S%d:%d", w, l.k)
	for i, t := range l.terms {
		fmt.Fprintf(&sb, ",%d*%d", l.coefs[i], t.id)
	}
	return ts.intern(sb.String(), func() *Term {
		t := &Term{Op: OSum, W: w, K: l.k, Args: l.terms, Coefs: l.coefs, lo: 0, hi: mask(w)}
		if lo, hi, k, ok := exactReading(w, l); ok {
			t.lo, t.hi, t.ik, t.exact = uint64(lo), uint64(hi), k, true
		}
		return t
	})
}

func (ts *TermStore) Add(a, b *Term) *Term {
	if a.IsConst() && b.IsConst() {
		return ts.Const(a.W, a.K+b.K)
	}
	return ts.fromLin(a.W, linCombine(a.W, ts.linOf(a), 1, ts.linOf(b), 1))
}

func (ts *TermStore) Sub(a, b *Term) *Term {
	if a.IsConst() && b.IsConst() {
		return ts.Const(a.W, a.K-b.K)
	}
	return ts.fromLin(a.W, linCombine(a.W, ts.linOf(a), 1, ts.linOf(b), mask(a.W)))
}

func (ts *TermStore) Neg(a *Term) *Term { return ts.Sub(ts.Const(a.W, 0), a) }

func (ts *TermStore) Mul(a, b *Term) *Term {
	if a.IsConst() && b.IsConst() {
		return ts.Const(a.W, a.K*b.K)
	}
	if b.IsConst() {
		a, b = b, a
	}
	if a.IsConst() {
		return ts.fromLin(a.W, linCombine(a.W, ts.linOf(b), a.K, lin{}, 0))
	}
	if a.id > b.id {
		a, b = b, a
	}
	return ts.bin(OMul, a.W, a, b)
}

// difference b-a as an integer interval when both are exact
func (ts *TermStore) diffInterval(a, b *Term) (lo, hi int64, ok bool) {
	if !a.exact || !b.exact || a.W != b.W || a.W == 0 {
		return 0, 0, false
	}
	w := a.W
	ext := func(t *Term) (lin, int64) {
		l := ts.linOf(t)
		r := lin{}
		for i, x := range l.terms {
			r.terms = append(r.terms, x)
			r.coefs = append(r.coefs, uint64(scoef(l.coefs[i], w)))
		}
		switch t.Op {
		case OSum:
			return r, t.ik
		case OConst:
			return r, int64(t.K)
		}
		return r, 0
	}
	la, ka := ext(a)
	lb, kb := ext(b)
	if t := a; t.Op == OConst && t.K >= safeMag {
		return 0, 0, false
	}
	if t := b; t.Op == OConst && t.K >= safeMag {
		return 0, 0, false
	}
	d := linCombine(64, lb, 1, la, ^uint64(0))
	return linIntervalK(64, d, kb-ka)
}

// --------------------------------------------------------------- generic ops

func (ts *TermStore) bin(op Op, w uint8, a, b *Term) *Term {
	key := fmt.Sprintf("b%d:%d:%d:%d", op, w, a.id, b.id)
	return ts.intern(key, func() *Term {
		t := &Term{Op: op, W: w, A: a, B: b, lo: 0, hi: mask(w)}
		ts.setInterval(t)
		return t
	})
}

func (ts *TermStore) setInterval(t *Term) {
	a, b := t.A, t.B
	switch t.Op {
	case OAnd:
		t.hi = a.hi
		if b.hi < t.hi {
			t.hi = b.hi
		}
	case OOr, OXor:
		// bounded by next power of two above both
		m := a.hi | b.hi
		if m != 0 {
			t.hi = (uint64(1) << uint(bits.Len64(m))) - 1
			if bits.Len64(m) == 64 {
				t.hi = ^uint64(0)
			}
		} else {
			t.hi = 0
		}
		if t.hi > mask(t.W) {
			t.hi = mask(t.W)
		}
	case OURem:
		if b.IsConst() && b.K != 0 {
			t.hi = b.K - 1
		}
		if a.hi < t.hi {
			t.hi = a.hi
		}
	case OUDiv:
		if b.IsConst() && b.K != 0 {
			t.hi = a.hi / b.K
			t.lo = a.lo / b.K
		} else {
			t.hi = a.hi
		}
	case OLShr:
		if b.IsConst() && b.K < 64 {
			t.hi = a.hi >> b.K
			t.lo = a.lo >> b.K
		} else {
			t.hi = a.hi
		}
	case OShl:
		if b.IsConst() && b.K < 64 && bits.Len64(a.hi)+int(b.K) <= int(t.W) {
			t.hi = a.hi << b.K
			t.lo = a.lo << b.K
		}
	case OMul:
		h, l := bits.Mul64(a.hi, b.hi)
		if h == 0 && l <= mask(t.W) {
			t.hi = l
			t.lo = a.lo * b.lo
		}
	}
	t.exact = true // an atom is exact as itself
}

func (ts *TermStore) BinBV(op Op, a, b *Term) *Term {
	w := a.W
	m := mask(w)
	if a.IsConst() && b.IsConst() {
		x, y := a.K, b.K
		switch op {
		case OUDiv:
			if y == 0 {
				return ts.Const(w, m)
			}
			return ts.Const(w, x/y)
		case OURem:
			if y == 0 {
				return ts.Const(w, x)
			}
			return ts.Const(w, x%y)
		case OSDiv:
			sx, sy := scoef(x, w), scoef(y, w)
			if sy == 0 {
				if sx < 0 {
					return ts.Const(w, 1)
				}
				return ts.Const(w, m)
			}
			if sy == -1 {
				return ts.Const(w, uint64(-sx))
			}
			return ts.Const(w, uint64(sx/sy))
		case OSRem:
			sx, sy := scoef(x, w), scoef(y, w)
			if sy == 0 {
				return ts.Const(w, x)
			}
			if sy == -1 {
				return ts.Const(w, 0)
			}
			return ts.Const(w, uint64(sx%sy))
		case OAnd:
			return ts.Const(w, x&y)
		case OOr:
			return ts.Const(w, x|y)
		case OXor:
			return ts.Const(w, x^y)
		case OShl:
			if y >= uint64(w) {
				return ts.Const(w, 0)
			}
			return ts.Const(w, x<<y)
		case OLShr:
			if y >= uint64(w) {
				return ts.Const(w, 0)
			}
			return ts.Const(w, x>>y)
		case OAShr:
			sx := scoef(x, w)
			if y >= uint64(w) {
				y = uint64(w) - 1
			}
			return ts.Const(w, uint64(sx>>y))
		}
	}
	switch op {
	case OAnd:
		if b.IsConst() {
			a, b = b, a
		}
		if a.IsConst() {
			if a.K == 0 {
				return a
			}
			if a.K == m {
				return b
			}
			// mask that covers the whole range of b is a no-op
			if a.K&(a.K+1) == 0 && b.hi <= a.K {
				return b
			}
			// (u | k) & c = (u & c) | (k & c);  (u & m2) & c = u & (m2 & c)
			if b.Op == OOr && b.A.IsConst() {
				return ts.BinBV(OOr, ts.BinBV(OAnd, b.B, a), ts.Const(w, b.A.K&a.K))
			}
			if b.Op == OAnd && b.A.IsConst() {
				return ts.BinBV(OAnd, b.B, ts.Const(w, b.A.K&a.K))
			}
		}
		if a == b {
			return a
		}
	case OOr:
		if b.IsConst() {
			a, b = b, a
		}
		if a.IsConst() && a.K == 0 {
			return b
		}
		if a.IsConst() {
			if a.K == m {
				return a
			}
			// (u | k) | c = u | (k | c);  (u & m2) | c = (u & (m2 &^ c)) | c
			if b.Op == OOr && b.A.IsConst() {
				return ts.BinBV(OOr, b.B, ts.Const(w, b.A.K|a.K))
			}
			if b.Op == OAnd && b.A.IsConst() && b.A.K&a.K != 0 {
				return ts.BinBV(OOr, ts.BinBV(OAnd, b.B, ts.Const(w, b.A.K&^a.K)), a)
			}
		}
		if a == b {
			return a
		}
	case OXor:
		if b.IsConst() {
			a, b = b, a
		}
		if a.IsConst() && a.K == 0 {
			return b
		}
		if a == b {
			return ts.Const(w, 0)
		}
	case OShl, OLShr, OAShr:
		if b.IsConst() && b.K == 0 {
			return a
		}
		if op == OShl && b.IsConst() && b.K < uint64(w) {
			return ts.Mul(a, ts.Const(w, uint64(1)<<b.K))
		}
	case OUDiv:
		if b.IsConst() && b.K == 1 {
			return a
		}
	}
	if op == OAnd || op == OOr || op == OXor {
		switch {
		case a.IsConst():
		case b.IsConst():
			a, b = b, a
		case a.id > b.id:
			a, b = b, a
		}
	}
	return ts.bin(op, w, a, b)
}

func (ts *TermStore) Not(a *Term) *Term {
	if a.IsConst() {
		return ts.Const(a.W, ^a.K)
	}
	return ts.intern(fmt.Sprintf("n%d", a.id), func() *Term {
		return &Term{Op: ONot, W: a.W, A: a, lo: 0, hi: mask(a.W), exact: true}
	})
}

func (ts *TermStore) Extract(a *Term, lo uint8, w uint8) *Term {
	if lo == 0 && w == a.W {
		return a
	}
	if a.IsConst() {
		return ts.Const(w, a.K>>lo)
	}
	if lo == 0 {
		switch a.Op {
		case OZext, OSext:
			if a.A.W == w {
				return a.A
			}
			if a.A.W > w {
				return ts.Extract(a.A, 0, w)
			}
			if a.Op == OZext {
				return ts.Zext(a.A, w)
			}
			return ts.Sext(a.A, w)
		case OSum:
			// truncation is a ring homomorphism
			l := lin{k: a.K & mask(w)}
			parts := lin{}
			for i, t := range a.Args {
				parts = linCombine(w, parts, 1, ts.linOf(ts.Extract(t, 0, w)), a.Coefs[i]&mask(w))
			}
			return ts.fromLin(w, linCombine(w, l, 1, parts, 1))
		}
	}
	return ts.intern(fmt.Sprintf("x%d:%d:%d", a.id, lo, w), func() *Term {
		t := &Term{Op: OExtract, W: w, A: a, K: uint64(lo), lo: 0, hi: mask(w), exact: true}
		if lo == 0 && a.hi <= mask(w) {
			t.lo, t.hi = a.lo, a.hi
		}
		return t
	})
}

func (ts *TermStore) Zext(a *Term, w uint8) *Term {
	if w == a.W {
		return a
	}
	if a.IsConst() {
		return ts.Const(w, a.K)
	}
	if a.Op == OExtract && a.K == 0 && a.A.W == w && a.A.hi <= mask(a.W) {
		return a.A
	}
	if a.Op == OExtract && a.K == 0 && a.A.W > w && a.A.hi <= mask(a.W) {
		return ts.Extract(a.A, 0, w)
	}
	if a.Op == OZext {
		return ts.Zext(a.A, w)
	}
	if a.Op == OSum && a.exact {
		l := lin{k: uint64(a.ik) & mask(w)}
		parts := lin{}
		for i, t := range a.Args {
			parts = linCombine(w, parts, 1, ts.linOf(ts.Zext(t, w)), uint64(scoef(a.Coefs[i], a.W))&mask(w))
		}
		return ts.fromLin(w, linCombine(w, l, 1, parts, 1))
	}
	return ts.intern(fmt.Sprintf("z%d:%d", a.id, w), func() *Term {
		return &Term{Op: OZext, W: w, A: a, lo: a.lo, hi: a.hi, exact: true}
	})
}

func (ts *TermStore) Sext(a *Term, w uint8) *Term {
	if w == a.W {
		return a
	}
	if a.IsConst() {
		return ts.Const(w, uint64(scoef(a.K, a.W)))
	}
	if a.hi < uint64(1)<<(a.W-1) {
		return ts.Zext(a, w)
	}
	return ts.intern(fmt.Sprintf("s%d:%d", a.id, w), func() *Term {
		return &Term{Op: OSext, W: w, A: a, lo: 0, hi: mask(w), exact: true}
	})
}

func (ts *TermStore) Ite(c, a, b *Term) *Term {
	if c.IsTrue() {
		return a
	}
	if c.IsFalse() {
		return b
	}
	if a == b {
		return a
	}
	if a.W == 0 {
		// Boolean ite
		return ts.Or(ts.And(c, a), ts.And(ts.BNot(c), b))
	}
	return ts.intern(fmt.Sprintf("i%d:%d:%d", c.id, a.id, b.id), func() *Term {
		t := &Term{Op: OIte, W: a.W, C: c, A: a, B: b, exact: true}
		t.lo, t.hi = a.lo, a.hi
		if b.lo < t.lo {
			t.lo = b.lo
		}
		if b.hi > t.hi {
			t.hi = b.hi
		}
		return t
	})
}

// ---------------------------------------------------------------- predicates

func (ts *TermStore) Eq(a, b *Term) *Term {
	if a == b {
		return ts.True()
	}
	if a.IsConst() && b.IsConst() {
		return ts.Bool(a.K == b.K)
	}
	if a.W == 0 {
		// Boolean equality
		if a.IsConst() {
			a, b = b, a
		}
		if b.IsTrue() {
			return a
		}
		if b.IsFalse() {
			return ts.BNot(a)
		}
	} else {
		if a.hi < b.lo || b.hi < a.lo {
			return ts.False()
		}
		if lo, hi, ok := ts.diffInterval(a, b); ok && (lo > 0 || hi < 0) {
			return ts.False()
		}
		// difference is a non-zero constant modulo 2^w
		d := ts.Sub(a, b)
		if d.IsConst() {
			return ts.Bool(d.K == 0)
		}
	}
	if a.id > b.id {
		a, b = b, a
	}
	return ts.pred(OEq, a, b)
}

func (ts *TermStore) pred(op Op, a, b *Term) *Term {
	return ts.intern(fmt.Sprintf("p%d:%d:%d", op, a.id, b.id), func() *Term {
		return &Term{Op: op, W: 0, A: a, B: b, lo: 0, hi: 1}
	})
}

func (ts *TermStore) Ult(a, b *Term) *Term {
	if a.IsConst() && b.IsConst() {
		return ts.Bool(a.K < b.K)
	}
	if a.IsConst() && a.K == 0 {
		return ts.BNot(ts.Eq(b, a))
	}
	if b.IsConst() && b.K == 1 {
		return ts.Eq(a, ts.Const(a.W, 0))
	}
	if a == b {
		return ts.False()
	}
	if a.hi < b.lo {
		return ts.True()
	}
	if a.lo >= b.hi {
		return ts.False()
	}
	if lo, hi, ok := ts.diffInterval(a, b); ok {
		if lo > 0 {
			return ts.True()
		}
		if hi <= 0 {
			return ts.False()
		}
	}
	return ts.pred(OUlt, a, b)
}

func (ts *TermStore) Ule(a, b *Term) *Term { return ts.BNot(ts.Ult(b, a)) }

// RangeConstraint builds lo <= t <= hi without consulting t's declared
// interval (it is the constraint that establishes that interval).
func (ts *TermStore) RangeConstraint(t *Term, lo, hi uint64) *Term {
	c := ts.True()
	if lo > 0 {
		c = ts.And(c, ts.BNot(ts.pred(OUlt, t, ts.Const(t.W, lo))))
	}
	if hi < mask(t.W) {
		c = ts.And(c, ts.BNot(ts.pred(OUlt, ts.Const(t.W, hi), t)))
	}
	return c
}

func (ts *TermStore) Slt(a, b *Term) *Term {
	w := a.W
	if a.IsConst() && b.IsConst() {
		return ts.Bool(scoef(a.K, w) < scoef(b.K, w))
	}
	if a == b {
		return ts.False()
	}
	half := uint64(1) << (w - 1)
	if a.hi < half && b.hi < half {
		return ts.Ult(a, b)
	}
	return ts.pred(OSlt, a, b)
}

func (ts *TermStore) Sle(a, b *Term) *Term { return ts.BNot(ts.Slt(b, a)) }

func (ts *TermStore) BNot(a *Term) *Term {
	if a.IsConst() {
		return ts.Bool(a.K == 0)
	}
	if a.Op == OBNot {
		return a.A
	}
	return ts.intern(fmt.Sprintf("!%d", a.id), func() *Term {
		return &Term{Op: OBNot, W: 0, A: a, lo: 0, hi: 1}
	})
}

func (ts *TermStore) And(a, b *Term) *Term {
	if a.IsFalse() || b.IsFalse() {
		return ts.False()
	}
	if a.IsTrue() {
		return b
	}
	if b.IsTrue() {
		return a
	}
	if a == b {
		return a
	}
	if a.id > b.id {
		a, b = b, a
	}
	return ts.intern(fmt.Sprintf("&%d:%d", a.id, b.id), func() *Term {
		return &Term{Op: OBAnd, W: 0, A: a, B: b, lo: 0, hi: 1}
	})
}

func (ts *TermStore) Or(a, b *Term) *Term {
	if a.IsTrue() || b.IsTrue() {
		return ts.True()
	}
	if a.IsFalse() {
		return b
	}
	if b.IsFalse() {
		return a
	}
	if a == b {
		return a
	}
	if a.id > b.id {
		a, b = b, a
	}
	return ts.intern(fmt.Sprintf("|%d:%d", a.id, b.id), func() *Term {
		return &Term{Op: OBOr, W: 0, A: a, B: b, lo: 0, hi: 1}
	})
}

// ------------------------------------------------------------------ printing

func bvLit(w uint8, v uint64) string {
	v &= mask(w)
	if w%4 == 0 {
		return fmt.Sprintf("#x%0*x", int(w/4), v)
	}
	return fmt.Sprintf("(_ bv%d %d)", v, w)
}

func sortOf(w uint8) string {
	if w == 0 {
		return "Bool"
	}
	return fmt.Sprintf("(_ BitVec %d)", w)
}

// ref returns the SMT-LIB text that denotes t given that its children have
// been defined (leaves are printed inline, inner nodes by name).
func (t *Term) ref() string {
	switch t.Op {
	case OConst:
		if t.W == 0 {
			if t.K == 1 {
				return "true"
			}
			return "false"
		}
		return bvLit(t.W, t.K)
	case OVar:
		return t.Name
	}
	return fmt.Sprintf("t%d", t.id)
}

func (t *Term) body() string {
	b2 := func(op string) string { return fmt.Sprintf("(%s %s %s)", op, t.A.ref(), t.B.ref()) }
	switch t.Op {
	case OSum:
		var parts []string
		if t.K != 0 {
			parts = append(parts, bvLit(t.W, t.K))
		}
		for i, a := range t.Args {
			c := t.Coefs[i]
			switch {
			case c == 1:
				parts = append(parts, a.ref())
			case c == mask(t.W):
				parts = append(parts, fmt.Sprintf("(bvneg %s)", a.ref()))
			default:
				parts = append(parts, fmt.Sprintf("(bvmul %s %s)", bvLit(t.W, c), a.ref()))
			}
		}
		if len(parts) == 1 {
			return parts[0]
		}
		return "(bvadd " + strings.Join(parts, " ") + ")"
	case OMul:
		return b2("bvmul")
	case OUDiv:
		return b2("bvudiv")
	case OURem:
		return b2("bvurem")
	case OSDiv:
		return b2("bvsdiv")
	case OSRem:
		return b2("bvsrem")
	case OAnd:
		return b2("bvand")
	case OOr:
		return b2("bvor")
	case OXor:
		return b2("bvxor")
	case OShl:
		return b2("bvshl")
	case OLShr:
		return b2("bvlshr")
	case OAShr:
		return b2("bvashr")
	case ONot:
		return fmt.Sprintf("(bvnot %s)", t.A.ref())
	case OExtract:
		return fmt.Sprintf("((_ extract %d %d) %s)", int(t.K)+int(t.W)-1, t.K, t.A.ref())
	case OZext:
		return fmt.Sprintf("((_ zero_extend %d) %s)", t.W-t.A.W, t.A.ref())
	case OSext:
		return fmt.Sprintf("((_ sign_extend %d) %s)", t.W-t.A.W, t.A.ref())
	case OIte:
		return fmt.Sprintf("(ite %s %s %s)", t.C.ref(), t.A.ref(), t.B.ref())
	case OEq:
		return b2("=")
	case OUlt:
		return b2("bvult")
	case OUle:
		return b2("bvule")
	case OSlt:
		return b2("bvslt")
	case OSle:
		return b2("bvsle")
	case OBNot:
		return fmt.Sprintf("(not %s)", t.A.ref())
	case OBAnd:
		return b2("and")
	case OBOr:
		return b2("or")
	}
	panic("body of leaf")
}

func (t *Term) children() []*Term {
	var r []*Term
	if t.C != nil {
		r = append(r, t.C)
	}
	if t.A != nil {
		r = append(r, t.A)
	}
	if t.B != nil {
		r = append(r, t.B)
	}
	r = append(r, t.Args...)
	return r
}

// String renders a term as a tree (debugging and reports; may be large).
func (t *Term) String() string {
	switch t.Op {
	case OConst, OVar:
		return t.ref()
	}
	s := t.body()
	// expand child names one level only, to keep it bounded
	return s
}

// ---------------------------------------------------------------- evaluation

type Model map[string]uint64

func (t *Term) Eval(m Model, memo map[*Term]uint64) uint64 {
	if v, ok := memo[t]; ok {
		return v
	}
	var r uint64
	w := t.W
	mk := mask(w)
	ev := func(x *Term) uint64 { return x.Eval(m, memo) }
	switch t.Op {
	case OConst:
		r = t.K
	case OVar:
		if v, ok := m[t.Name]; ok {
			r = v & mk
		} else {
			r = t.lo // unconstrained so far: any value of its range will do
		}
	case OSum:
		r = t.K
		for i, a := range t.Args {
			r += t.Coefs[i] * ev(a)
		}
		r &= mk
	case OMul:
		r = (ev(t.A) * ev(t.B)) & mk
	case OUDiv:
		x, y := ev(t.A), ev(t.B)
		if y == 0 {
			r = mk
		} else {
			r = x / y
		}
	case OURem:
		x, y := ev(t.A), ev(t.B)
		if y == 0 {
			r = x
		} else {
			r = x % y
		}
	case OSDiv:
		sx, sy := scoef(ev(t.A), w), scoef(ev(t.B), w)
		switch {
		case sy == 0 && sx < 0:
			r = 1
		case sy == 0:
			r = mk
		case sy == -1:
			r = uint64(-sx) & mk
		default:
			r = uint64(sx/sy) & mk
		}
	case OSRem:
		sx, sy := scoef(ev(t.A), w), scoef(ev(t.B), w)
		switch {
		case sy == 0:
			r = uint64(sx) & mk
		case sy == -1:
			r = 0
		default:
			r = uint64(sx%sy) & mk
		}
	case OAnd:
		r = ev(t.A) & ev(t.B)
	case OOr:
		r = ev(t.A) | ev(t.B)
	case OXor:
		r = ev(t.A) ^ ev(t.B)
	case OShl:
		x, y := ev(t.A), ev(t.B)
		if y >= uint64(w) {
			r = 0
		} else {
			r = (x << y) & mk
		}
	case OLShr:
		x, y := ev(t.A), ev(t.B)
		if y >= uint64(w) {
			r = 0
		} else {
			r = x >> y
		}
	case OAShr:
		x, y := ev(t.A), ev(t.B)
		if y >= uint64(w) {
			y = uint64(w) - 1
		}
		r = uint64(scoef(x, w)>>y) & mk
	case ONot:
		r = ^ev(t.A) & mk
	case OExtract:
		r = (ev(t.A) >> t.K) & mk
	case OZext:
		r = ev(t.A)
	case OSext:
		r = uint64(scoef(ev(t.A), t.A.W)) & mk
	case OIte:
		if ev(t.C) != 0 {
			r = ev(t.A)
		} else {
			r = ev(t.B)
		}
	case OEq:
		r = b2u(ev(t.A) == ev(t.B))
	case OUlt:
		r = b2u(ev(t.A) < ev(t.B))
	case OUle:
		r = b2u(ev(t.A) <= ev(t.B))
	case OSlt:
		r = b2u(scoef(ev(t.A), t.A.W) < scoef(ev(t.B), t.A.W))
	case OSle:
		r = b2u(scoef(ev(t.A), t.A.W) <= scoef(ev(t.B), t.A.W))
	case OBNot:
		r = 1 - ev(t.A)
	case OBAnd:
		r = ev(t.A) & ev(t.B)
	case OBOr:
		r = ev(t.A) | ev(t.B)
	}
	memo[t] = r
	return r
}

func b2u(b bool) uint64 {
	if b {
		return 1
	}
	return 0
}

// Vars collects the variables a term depends on.
func (t *Term) Vars(seen map[*Term]bool, out map[string]*Term) {
	if seen[t] {
		return
	}
	seen[t] = true
	if t.Op == OVar {
		out[t.Name] = t
		return
	}
	for _, c := range t.children() {
		c.Vars(seen, out)
	}
}

// SHash is a structural hash of the term that does not depend on creation
// order; used to check that a replayed decision prefix meets the same
// conditions it was recorded for.
func (t *Term) SHash() uint64 {
	if t.sh != 0 {
		return t.sh
	}
	h := uint64(1469598103934665603)
	mix := func(x uint64) {
		h ^= x
		h *= 1099511628211
	}
	mix(uint64(t.Op))
	mix(uint64(t.W))
	mix(t.K)
	for i := 0; i < len(t.Name); i++ {
		mix(uint64(t.Name[i]))
	}
	if t.Op == OSum {
		// order-independent combination of the summands
		var acc uint64
		for i, a := range t.Args {
			acc += a.SHash() * (t.Coefs[i]*2 + 1)
		}
		mix(acc)
	} else if t.Op == OAnd || t.Op == OOr || t.Op == OXor || t.Op == OMul || t.Op == OEq || t.Op == OBAnd || t.Op == OBOr {
		mix(t.A.SHash() + t.B.SHash())
		mix(t.A.SHash() ^ t.B.SHash())
	} else {
		for _, c := range t.children() {
			mix(c.SHash())
		}
	}
	if h == 0 {
		h = 1
	}
	t.sh = h
	return h
}

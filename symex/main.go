package main

import (
	"encoding/json"
	"flag"
	"fmt"
	"os"
	"path/filepath"
	"sort"
	"strconv"
	"strings"
	"time"
)

func main() {
	if len(os.Args) < 2 {
		fmt.Fprintln(os.Stderr, "usage: gosymex explore|check ...")
		os.Exit(2)
	}
	switch os.Args[1] {
	case "explore":
		cmdExplore(os.Args[2:])
	case "check":
		cmdCheck(os.Args[2:])
	case "replay":
		cmdReplay(os.Args[2:])
	default:
		fmt.Fprintln(os.Stderr, "unknown command", os.Args[1])
		os.Exit(2)
	}
}

// cmdExplore runs one harness and prints a summary (development tool).
func cmdExplore(args []string) {
	fs := flag.NewFlagSet("explore", flag.ExitOnError)
	harness := fs.String("harness", "", "pkg.Func under vharness/")
	hdir := fs.String("hdir", "/verif/harness", "harness module directory")
	repo := fs.String("repo", "/repo", "go-vise working tree")
	workers := fs.Int("workers", 8, "workers")
	solver := fs.String("solver", "z3", "solver binary")
	smode := fs.String("smode", "z3", "primary solver: z3 | cvc5 (integer mode)")
	timeout := fs.Int("timeout", 20000, "per query timeout ms")
	quick := fs.Int("quickms", 1500, "z3 budget before the cvc5 integer-mode fallback")
	maxPaths := fs.Int("maxpaths", 0, "path budget")
	verbose := fs.Bool("v", false, "print paths")
	transcripts := fs.String("transcripts", "", "write solver transcripts with this path prefix")
	var params multiFlag
	fs.Var(&params, "p", "name=value harness parameter")
	fs.Parse(args)
	parts := strings.SplitN(*harness, ".", 2)
	if len(parts) != 2 {
		fmt.Fprintln(os.Stderr, "bad -harness")
		os.Exit(2)
	}
	P, err := LoadProgram(*hdir, *repo, []string{harnessMod + "/" + parts[0]}, nil)
	if err != nil {
		fmt.Fprintln(os.Stderr, err)
		os.Exit(2)
	}
	fn := P.lookupFunc(harnessMod+"/"+parts[0], parts[1])
	if fn == nil {
		fmt.Fprintln(os.Stderr, "harness not found")
		os.Exit(2)
	}
	pm := map[string]int{}
	for _, kv := range params {
		p := strings.SplitN(kv, "=", 2)
		n, _ := strconv.Atoi(p[1])
		pm[p[0]] = n
	}
	E := &Explorer{P: P, Run: &HarnessRun{Name: *harness, Fn: fn, Params: pm, MaxPaths: *maxPaths}, SolverBin: *solver, TimeoutMs: *timeout, Workers: *workers, Transcripts: *transcripts, QuickMs: *quick, SolverMode: *smode}
	res := E.Explore()
	fmt.Printf("fallback solver: %d queries (%d sat %d unsat %d unknown) %.1fs\n", res.Fallback.Queries, res.Fallback.Sat, res.Fallback.Unsat, res.Fallback.Unknown, res.Fallback.Time.Seconds())
	fmt.Printf("load %.1fs explore %.1fs paths %d decisions %d queries %d (sat %d unsat %d unknown %d) solver %.1fs max %.2fs\n",
		P.LoadTime.Seconds(), res.Wall.Seconds(), len(res.Paths), res.Decisions, res.Stats.Queries, res.Stats.Sat, res.Stats.Unsat, res.Stats.Unknown, res.Stats.Time.Seconds(), res.Stats.MaxQuery.Seconds())
	ends := map[string]int{}
	for _, p := range res.Paths {
		ends[fmt.Sprint(p.End)+" "+firstLine(p.Msg)]++
	}
	var ks []string
	for k := range ends {
		ks = append(ks, k)
	}
	sort.Strings(ks)
	for _, k := range ks {
		fmt.Printf("  end %-60s %d\n", k, ends[k])
	}
	if *verbose {
		for i, p := range res.Paths {
			fmt.Printf("path %d end=%d %s draws=%v obs=%v covers=%v\n", i, p.End, p.Msg, drawStr(p.Draws), p.Obs, p.Covers)
		}
	}
	fmt.Println("covers:", res.Covers)
	fmt.Println("asserts:", res.Asserts)
	for i, v := range res.Violations {
		fmt.Printf("VIOLATION %s at %s classes=%v draws=%s\n", v.ID, v.Pos, v.Classes, drawStr(v.Draws))
		rp := map[string]interface{}{"property": "dev", "harness": *harness, "params": pm, "draws": nativeDraws(v.Draws), "obligation": v.ID}
		rb, _ := json.Marshal(rp)
		os.WriteFile(fmt.Sprintf("/tmp/viol%d.json", i), rb, 0644)
	}
	for _, m := range res.Inconcl {
		fmt.Println("INCONCLUSIVE:", m)
	}
}

func firstLine(s string) string {
	if i := strings.IndexByte(s, '\n'); i >= 0 {
		s = s[:i]
	}
	if len(s) > 160 {
		s = s[:160]
	}
	return s
}

func drawStr(ds []DrawRec) string {
	var sb strings.Builder
	last := ""
	for _, d := range ds {
		if d.Kind == "byte" && d.Label == last {
			fmt.Fprintf(&sb, "%02x", d.V)
			continue
		}
		if d.Kind == "byte" {
			fmt.Fprintf(&sb, " %s=%02x", d.Label, d.V)
		} else {
			fmt.Fprintf(&sb, " %s=%d", d.Label, d.V)
		}
		last = d.Label
	}
	return sb.String()
}

type multiFlag []string

func (m *multiFlag) String() string     { return strings.Join(*m, ",") }
func (m *multiFlag) Set(s string) error { *m = append(*m, s); return nil }


// cmdReplay re-runs a recorded counterexample natively against /repo's
// current tree.
func cmdReplay(args []string) {
	fs := flag.NewFlagSet("replay", flag.ExitOnError)
	file := fs.String("file", "", "replay json")
	vdir := fs.String("verif", "/verif", "verification directory")
	fs.Parse(args)
	b, err := os.ReadFile(*file)
	if err != nil {
		fmt.Println("cannot read replay:", err)
		os.Exit(2)
	}
	var rp struct {
		Property   string         `json:"property"`
		Harness    string         `json:"harness"`
		Params     map[string]int `json:"params"`
		Draws      []DrawRec      `json:"draws"`
		Obligation string         `json:"obligation"`
	}
	if err := json.Unmarshal(b, &rp); err != nil {
		fmt.Println("bad replay file:", err)
		os.Exit(2)
	}
	hdir := filepath.Join(*vdir, "harness")
	if sum, err := os.ReadFile("/repo/go.sum"); err == nil {
		os.WriteFile(filepath.Join(hdir, "go.sum"), sum, 0644)
	}
	work := filepath.Join(*vdir, ".work")
	os.MkdirAll(work, 0755)
	bin := filepath.Join(work, fmt.Sprintf("vreplay.%d", os.Getpid()))
	defer os.Remove(bin)
	overlayJSON := ""
	var cfgAll map[string]PropCfg
	if cb, err := os.ReadFile(filepath.Join(*vdir, "checks.json")); err == nil {
		json.Unmarshal(cb, &cfgAll)
		if cfg, ok := cfgAll[rp.Property]; ok && len(cfg.Overlay) > 0 {
			ov := map[string]string{}
			for virt, real := range cfg.Overlay {
				ov[virt] = filepath.Join(*vdir, real)
			}
			ob, _ := json.Marshal(map[string]map[string]string{"Replace": ov})
			overlayJSON = filepath.Join(work, fmt.Sprintf("overlay.%d.json", os.Getpid()))
			os.WriteFile(overlayJSON, ob, 0644)
			defer os.Remove(overlayJSON)
		}
	}
	if err := buildReplay(hdir, bin, overlayJSON); err != nil {
		fmt.Println(err)
		os.Exit(2)
	}
	res, err := runReplay(bin, []replayJob{{ID: 1, Harness: rp.Harness, Params: rp.Params, Draws: rp.Draws}}, 5*time.Minute)
	if err != nil {
		fmt.Println(err)
		os.Exit(2)
	}
	r := res[1]
	fmt.Printf("harness %s with%s\nnative outcome: %s %s %s\n", rp.Harness, drawStr(rp.Draws), r.Outcome, r.FailID, r.Msg)
	for _, o := range r.Obs {
		fmt.Printf("  observed %s = %s\n", o.Name, o.Val)
	}
	reproduced := false
	if strings.HasPrefix(rp.Obligation, "panic: ") {
		reproduced = r.Outcome == "panic" || r.Outcome == "fatal"
	} else {
		reproduced = r.Outcome == "assert" && r.FailID == rp.Obligation
	}
	if reproduced {
		fmt.Printf("VIOLATION property=%s replay=%s\n", rp.Property, *file)
		os.Exit(1)
	}
	fmt.Println("the recorded violation does not occur on the current tree")
}

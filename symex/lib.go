package main

// Library models: regexp (NFA simulation over symbolic bytes), text/template
// (placeholder subset), write-footprint tracking.

import (
	"io/fs"
	"fmt"
	"go/types"
	"regexp"
	"regexp/syntax"
	"strings"
	"sync"

	"golang.org/x/tools/go/ssa"
)

func newRW() *sync.RWMutex { return &sync.RWMutex{} }

// --------------------------------------------------------------------- regexp

type regexHost struct {
	src   string
	re    *regexp.Regexp
	prog  *syntax.Prog
	exact bool
	why   string
}

func nonASCIIUnderLoop(re *syntax.Regexp, underLoop bool) (bool, string) {
	matchesNonASCII := false
	switch re.Op {
	case syntax.OpAnyChar, syntax.OpAnyCharNotNL:
		matchesNonASCII = true
	case syntax.OpCharClass:
		for i := 0; i+1 < len(re.Rune); i += 2 {
			if re.Rune[i+1] >= 0x80 {
				matchesNonASCII = true
			}
		}
	case syntax.OpLiteral:
		for _, r := range re.Rune {
			if r >= 0x80 {
				return false, "non-ASCII literal"
			}
		}
	case syntax.OpWordBoundary, syntax.OpNoWordBoundary:
		return false, "word boundary"
	}
	if matchesNonASCII && !underLoop {
		return false, "a single-character position can match a multi-byte character"
	}
	for _, sub := range re.Sub {
		loop := re.Op == syntax.OpStar || re.Op == syntax.OpPlus || (re.Op == syntax.OpRepeat && re.Max == -1)
		// a loop body made of exactly one character matcher
		ok, why := nonASCIIUnderLoop(sub, loop && (sub.Op == syntax.OpAnyChar || sub.Op == syntax.OpAnyCharNotNL || sub.Op == syntax.OpCharClass))
		if !ok {
			return false, why
		}
	}
	return true, ""
}

func (ex *Exec) regexpCompile(src string, must bool) Value {
	re, err := regexp.Compile(src)
	if err != nil {
		if must {
			if ex.tryDepth == 0 && !ex.crashOK {
				ex.oblige(ex.ts.False(), "panic: regexp.MustCompile: "+err.Error())
			}
			panic(&goPanic{v: ex.mkError(ex.strLit(err.Error())), what: "regexp.MustCompile: " + err.Error()})
		}
		return Ptr{}
	}
	rh := &regexHost{src: src, re: re}
	if parsed, err := syntax.Parse(src, syntax.Perl); err == nil {
		ok, why := nonASCIIUnderLoop(parsed, false)
		rh.exact, rh.why = ok, why
		if prog, err := syntax.Compile(parsed.Simplify()); err == nil {
			rh.prog = prog
		}
	}
	cell := new(Value)
	*cell = &Host{Kind: "regexp", Data: rh}
	return Ptr{P: cell}
}

func (ex *Exec) regexpMatch(recv Value, s Str) Value {
	p := ex.derefPtr(recv, "nil pointer dereference (nil *regexp.Regexp)")
	h, ok := (*p.P).(*Host)
	if !ok {
		ex.unsupported("regexp receiver is %T", *p.P)
	}
	rh := h.Data.(*regexHost)
	if c, ok := s.Concrete(); ok {
		return ex.ts.Bool(rh.re.MatchString(c))
	}
	if s.HasOpaque() {
		ex.unsupported("regexp match on opaque content")
	}
	if rh.prog == nil || !rh.exact {
		ex.unsupported("regexp /%s/ on symbolic bytes: %s", rh.src, rh.why)
	}
	return ex.nfaMatch(rh.prog, flatBytes(s))
}

func (ex *Exec) runeCond(inst *syntax.Inst, b *Term) *Term {
	ts := ex.ts
	match := func(r rune) bool {
		switch inst.Op {
		case syntax.InstRuneAny:
			return true
		case syntax.InstRuneAnyNotNL:
			return r != '\n'
		}
		return inst.MatchRune(r)
	}
	non := match(0xFFFD)
	for _, r := range []rune{0x80, 0xFF, 0x100, 0x7FF, 0x800, 0xFFFF, 0x10000, 0x10FFFF} {
		if match(r) != non {
			ex.unsupported("regexp class distinguishes non-ASCII characters")
		}
	}
	if b.IsConst() {
		if b.K < 0x80 {
			return ts.Bool(match(rune(b.K)))
		}
		return ts.Bool(non)
	}
	c := ts.False()
	i := 0
	for i < 128 {
		if !match(rune(i)) {
			i++
			continue
		}
		j := i
		for j+1 < 128 && match(rune(j+1)) {
			j++
		}
		if i == j {
			c = ts.Or(c, ts.Eq(b, ts.Const(8, uint64(i))))
		} else {
			c = ts.Or(c, ts.And(ts.Ule(ts.Const(8, uint64(i)), b), ts.Ule(b, ts.Const(8, uint64(j)))))
		}
		i = j + 1
	}
	if non {
		c = ts.Or(c, ts.Ule(ts.Const(8, 0x80), b))
	}
	return c
}

func (ex *Exec) nfaMatch(prog *syntax.Prog, bs []*Term) Value {
	ts := ex.ts
	n := len(bs)
	matched := ts.False()
	var add func(set map[int]*Term, pc int, cond *Term, pos int, onPath map[int]bool)
	add = func(set map[int]*Term, pc int, cond *Term, pos int, onPath map[int]bool) {
		if cond.IsFalse() || onPath[pc] {
			return
		}
		inst := &prog.Inst[pc]
		switch inst.Op {
		case syntax.InstFail:
		case syntax.InstAlt, syntax.InstAltMatch:
			onPath[pc] = true
			add(set, int(inst.Out), cond, pos, onPath)
			add(set, int(inst.Arg), cond, pos, onPath)
			delete(onPath, pc)
		case syntax.InstCapture, syntax.InstNop:
			onPath[pc] = true
			add(set, int(inst.Out), cond, pos, onPath)
			delete(onPath, pc)
		case syntax.InstEmptyWidth:
			c := ts.True()
			op := syntax.EmptyOp(inst.Arg)
			if op&syntax.EmptyBeginText != 0 {
				c = ts.And(c, ts.Bool(pos == 0))
			}
			if op&syntax.EmptyEndText != 0 {
				c = ts.And(c, ts.Bool(pos == n))
			}
			if op&syntax.EmptyBeginLine != 0 {
				if pos != 0 {
					c = ts.And(c, ts.Eq(bs[pos-1], ts.Const(8, '\n')))
				}
			}
			if op&syntax.EmptyEndLine != 0 {
				if pos != n {
					c = ts.And(c, ts.Eq(bs[pos], ts.Const(8, '\n')))
				}
			}
			if op&(syntax.EmptyWordBoundary|syntax.EmptyNoWordBoundary) != 0 {
				ex.unsupported("regexp word boundary on symbolic bytes")
			}
			onPath[pc] = true
			add(set, int(inst.Out), ts.And(cond, c), pos, onPath)
			delete(onPath, pc)
		case syntax.InstMatch:
			matched = ts.Or(matched, cond)
		default:
			if old, ok := set[pc]; ok {
				set[pc] = ts.Or(old, cond)
			} else {
				set[pc] = cond
			}
		}
	}
	cur := map[int]*Term{}
	for pos := 0; pos <= n; pos++ {
		add(cur, prog.Start, ts.True(), pos, map[int]bool{})
		if pos == n {
			break
		}
		next := map[int]*Term{}
		// deterministic order
		for pc := 0; pc < len(prog.Inst); pc++ {
			cond, ok := cur[pc]
			if !ok {
				continue
			}
			inst := &prog.Inst[pc]
			m := ex.runeCond(inst, bs[pos])
			add(next, int(inst.Out), ts.And(cond, m), pos+1, map[int]bool{})
		}
		cur = next
	}
	return matched
}

// -------------------------------------------------------------- text/template

type tmplPart struct {
	text  Str
	field string
	isFld bool
}

type tmplHost struct {
	preexisting bool // created before footprint tracking began
	name       string
	missingErr bool
	parts      []tmplPart
	parsed     bool
}

func (ex *Exec) tmplOf(v Value) *tmplHost {
	p := ex.derefPtr(v, "nil *template.Template")
	h, ok := (*p.P).(*Host)
	if !ok || h.Kind != "template" {
		ex.unsupported("template receiver is %T", *p.P)
	}
	return h.Data.(*tmplHost)
}

// parseTemplate supports text and {{.name}} actions only.
func (ex *Exec) parseTemplate(t *tmplHost, s Str) Value {
	var parts []tmplPart
	var cur []Seg
	flush := func() {
		if len(cur) > 0 {
			parts = append(parts, tmplPart{text: Str{Segs: normSegs(cur)}})
			cur = nil
		}
	}
	for _, g := range s.Segs {
		if g.opaque() {
			// declared content class: no '{'
			cur = append(cur, g)
			continue
		}
		i := 0
		start := 0
		for i < len(g.B) {
			if !ex.isByte(g.B[i], '{') {
				i++
				continue
			}
			if i+1 >= len(g.B) || !ex.isByte(g.B[i+1], '{') {
				i++
				continue
			}
			// action starts at i
			for k := i + 2; k < len(g.B); k++ {
				if !g.B[k].IsConst() {
					ex.unsupported("template action with symbolic content")
				}
			}
			rest := make([]byte, 0, len(g.B)-i)
			for k := i; k < len(g.B); k++ {
				if !g.B[k].IsConst() {
					ex.unsupported("template action with symbolic content")
				}
				rest = append(rest, byte(g.B[k].K))
			}
			end := strings.Index(string(rest), "}}")
			if end < 0 {
				return ex.mkError(ex.strLit("template: " + t.name + ":1: unclosed action"))
			}
			body := strings.TrimSpace(string(rest[2:end]))
			if !strings.HasPrefix(body, ".") || len(body) < 2 || strings.ContainsAny(body[1:], " .|()\"-") {
				ex.unsupported("template action {{%s}} outside the modelled subset", body)
			}
			cur = append(cur, Seg{B: g.B[start:i]})
			flush()
			parts = append(parts, tmplPart{field: body[1:], isFld: true})
			i += end + 2
			start = i
		}
		cur = append(cur, Seg{B: g.B[start:]})
	}
	flush()
	t.parts = parts
	t.parsed = true
	return Iface{}
}

func (ex *Exec) execTemplate(t *tmplHost, w Value, data Value) Value {
	out := Str{}
	var m *MapV
	if iv, ok := data.(Iface); ok && iv.T != nil {
		m, _ = iv.V.(*MapV)
		if m == nil {
			if _, isMap := iv.T.Underlying().(*types.Map); !isMap {
				ex.unsupported("template data of type %s", iv.T)
			}
		}
	}
	for _, p := range t.parts {
		if !p.isFld {
			out = concatStr(out, p.text)
			continue
		}
		i := ex.mapFind(m, ex.strLit(p.field))
		if i < 0 {
			if t.missingErr {
				ex.writeTo(w, out)
				return ex.mkError(ex.strLit(fmt.Sprintf("template: %s:1: executing %q at <.%s>: map has no entry for key %q", t.name, t.name, p.field, p.field)))
			}
			out = concatStr(out, ex.strLit("<no value>"))
			continue
		}
		v, ok := m.vals[i].(Str)
		if !ok {
			ex.unsupported("template value of type %T", m.vals[i])
		}
		out = concatStr(out, v)
	}
	ex.writeTo(w, out)
	return Iface{}
}

// ------------------------------------------------------------------ footprint

func (ex *Exec) markShared(v Value, tag string) {
	if ex.shared == nil {
		ex.shared = make(map[*Value]string)
	}
	seen := map[*Value]bool{}
	var markVal func(v Value)
	var markSlot func(s *Value)
	markSlot = func(s *Value) {
		if s == nil || seen[s] {
			return
		}
		seen[s] = true
		ex.shared[s] = tag
		markVal(*s)
	}
	markVal = func(v Value) {
		switch x := v.(type) {
		case Struct:
			for i := range x {
				markSlot(&x[i])
			}
		case Array:
			for i := range x {
				markSlot(&x[i])
			}
		case Ptr:
			markSlot(x.P)
		case Slice:
			if x.A != nil {
				full := x.A[:cap(x.A)]
				for i := range full {
					markSlot(&full[i])
				}
			}
		case *MapV:
			if x != nil {
				if ex.hostState["sharedMaps"] == nil {
					ex.hostState["sharedMaps"] = map[*MapV]string{}
				}
				ex.hostState["sharedMaps"].(map[*MapV]string)[x] = tag
				for i := range x.vals {
					markVal(x.vals[i])
					markVal(x.keys[i])
				}
			}
		case Iface:
			markVal(x.V)
		case *Closure:
			if x != nil {
				for _, e := range x.Env {
					markVal(e)
				}
			}
		}
	}
	markVal(v)
}

func (ex *Exec) footStore(p *Value) {
	if tag, ok := ex.shared[p]; ok {
		ex.oblige(ex.ts.False(), "footprint: write to "+tag+" memory")
	}
	if g, ok := ex.hostState["globalCells"].(map[*Value]string); ok {
		if name, ok := g[p]; ok {
			ex.oblige(ex.ts.False(), "footprint: write to package-level variable "+name)
		}
	}
}

func (ex *Exec) footMap(m *MapV) {
	if sm, ok := ex.hostState["sharedMaps"].(map[*MapV]string); ok {
		if tag, ok := sm[m]; ok {
			ex.oblige(ex.ts.False(), "footprint: write to "+tag+" map")
		}
	}
}

// snapshotGlobals registers the cells of all initialised go-vise globals so
// that later stores to them are footprint violations.
func (ex *Exec) snapshotGlobals() {
	cells := map[*Value]string{}
	var mark func(s *Value, name string, depth int)
	mark = func(s *Value, name string, depth int) {
		if s == nil || depth > 6 {
			return
		}
		if _, ok := cells[s]; ok {
			return
		}
		cells[s] = name
		switch x := (*s).(type) {
		case Struct:
			for i := range x {
				mark(&x[i], name, depth+1)
			}
		case Array:
			for i := range x {
				mark(&x[i], name, depth+1)
			}
		case *MapV:
			if x != nil {
				if ex.hostState["sharedMaps"] == nil {
					ex.hostState["sharedMaps"] = map[*MapV]string{}
				}
				ex.hostState["sharedMaps"].(map[*MapV]string)[x] = "package-level map " + name
			}
		case Slice:
			if x.A != nil {
				full := x.A[:cap(x.A)]
				for i := range full {
					mark(&full[i], name, depth+1)
				}
			}
		}
	}
	for g, c := range ex.globals {
		if g.Pkg != nil && isVisePkg(g.Pkg.Pkg.Path()) {
			mark(c, g.String(), 0)
		}
	}
	ex.hostState["globalCells"] = cells
}

// ------------------------------------------------------------- stub registry

// sync.Map: a keyed store behind the receiver's address (keys: concrete
// strings). A store into a map that is a package-level variable of go-vise is
// a write to process-wide state (footprint tracking, C19).
type syncMapHost struct {
	keys []string
	vals []Value
}

func (ex *Exec) syncMapOf(recv Value) (*syncMapHost, *Value) {
	p, ok := recv.(Ptr)
	if !ok || p.P == nil {
		ex.unsupported("sync.Map method on %s", describe(recv))
	}
	all, _ := ex.hostState["syncMaps"].(map[*Value]*syncMapHost)
	if all == nil {
		all = map[*Value]*syncMapHost{}
		ex.hostState["syncMaps"] = all
	}
	m := all[p.P]
	if m == nil {
		m = &syncMapHost{}
		all[p.P] = m
	}
	return m, p.P
}

func (ex *Exec) syncMapKey(v Value) string {
	if iv, ok := v.(Iface); ok {
		v = iv.V
	}
	if sv, ok := v.(Str); ok {
		if c, ok := sv.Concrete(); ok {
			return c
		}
	}
	ex.unsupported("sync.Map key %s (only concrete strings are modelled)", describe(v))
	return ""
}

func (ex *Exec) syncMapStore(cell *Value) {
	if !ex.trackFoot {
		return
	}
	if tag, ok := ex.shared[cell]; ok {
		ex.oblige(ex.ts.False(), "footprint: write to "+tag+" memory (sync.Map)")
	}
	if g, ok := ex.hostState["globalCells"].(map[*Value]string); ok {
		if name, ok := g[cell]; ok {
			ex.oblige(ex.ts.False(), "footprint: write to package-level variable "+name+" (sync.Map)")
		}
	}
}

func initLibStubs() {
	reg := func(name string, f intrinsicFn) { namedIntrinsics[name] = f }
	reg("(*sync.Map).Load", func(ex *Exec, fn *ssa.Function, args []Value, caller *Frame) Value {
		m, _ := ex.syncMapOf(args[0])
		k := ex.syncMapKey(args[1])
		for i, have := range m.keys {
			if have == k {
				return Tuple{m.vals[i], ex.ts.True()}
			}
		}
		return Tuple{Iface{}, ex.ts.False()}
	})
	reg("(*sync.Map).Store", func(ex *Exec, fn *ssa.Function, args []Value, caller *Frame) Value {
		m, cell := ex.syncMapOf(args[0])
		k := ex.syncMapKey(args[1])
		ex.syncMapStore(cell)
		for i, have := range m.keys {
			if have == k {
				m.vals[i] = args[2]
				return nil
			}
		}
		m.keys, m.vals = append(m.keys, k), append(m.vals, args[2])
		return nil
	})
	reg("(*sync.Map).LoadOrStore", func(ex *Exec, fn *ssa.Function, args []Value, caller *Frame) Value {
		m, cell := ex.syncMapOf(args[0])
		k := ex.syncMapKey(args[1])
		for i, have := range m.keys {
			if have == k {
				return Tuple{m.vals[i], ex.ts.True()}
			}
		}
		ex.syncMapStore(cell)
		m.keys, m.vals = append(m.keys, k), append(m.vals, args[2])
		return Tuple{args[2], ex.ts.False()}
	})
	reg("(*sync.Map).Delete", func(ex *Exec, fn *ssa.Function, args []Value, caller *Frame) Value {
		m, cell := ex.syncMapOf(args[0])
		k := ex.syncMapKey(args[1])
		for i, have := range m.keys {
			if have == k {
				ex.syncMapStore(cell)
				m.keys = append(m.keys[:i:i], m.keys[i+1:]...)
				m.vals = append(m.vals[:i:i], m.vals[i+1:]...)
				break
			}
		}
		return nil
	})
	reg("text/template.New", func(ex *Exec, fn *ssa.Function, args []Value, caller *Frame) Value {
		cell := new(Value)
		// a template made before write tracking began (package initialiser,
		// set-up) is process-wide: parsing into it later is a write to it
		*cell = &Host{Kind: "template", Data: &tmplHost{name: concArg(ex, args[0], "template.New"), preexisting: !ex.trackFoot}}
		return Ptr{P: cell}
	})
	reg("(*text/template.Template).Option", func(ex *Exec, fn *ssa.Function, args []Value, caller *Frame) Value {
		t := ex.tmplOf(args[0])
		if sl, ok := args[1].(Slice); ok {
			for _, o := range sl.A {
				switch concArg(ex, o, "template option") {
				case "missingkey=error":
					t.missingErr = true
				case "missingkey=default", "missingkey=invalid":
					t.missingErr = false
				default:
					ex.unsupported("template option")
				}
			}
		}
		return args[0]
	})
	reg("(*text/template.Template).Parse", func(ex *Exec, fn *ssa.Function, args []Value, caller *Frame) Value {
		t := ex.tmplOf(args[0])
		if ex.trackFoot && t.preexisting {
			ex.oblige(ex.ts.False(), "footprint: write to a text/template object that existed before the sessions began (Parse replaces its body)")
		}
		err := ex.parseTemplate(t, strArg(ex, args[1], "template.Parse"))
		if iv := err.(Iface); iv.T != nil {
			return Tuple{Ptr{}, err}
		}
		return Tuple{args[0], Iface{}}
	})
	reg("(*text/template.Template).Execute", func(ex *Exec, fn *ssa.Function, args []Value, caller *Frame) Value {
		t := ex.tmplOf(args[0])
		return ex.execTemplate(t, args[1], args[2])
	})
	initEnvStubs()
}

func (ex *Exec) hostMethodExt(h *Host, name string) func(ex *Exec, args []Value) Value {
	switch h.Kind + "." + name {
	case "os.DirEntry.Name":
		return func(ex *Exec, args []Value) Value { return h.Data.(Str) }
	case "os.DirEntry.IsDir":
		return func(ex *Exec, args []Value) Value { return ex.ts.False() }
	case "os.FileInfo.Name":
		return func(ex *Exec, args []Value) Value { return h.Data.(*statInfo).name }
	case "os.FileInfo.Size":
		return func(ex *Exec, args []Value) Value {
			si := h.Data.(*statInfo)
			if si.symSize != nil {
				return si.symSize
			}
			return ex.ts.Const(64, uint64(si.size))
		}
	case "os.FileInfo.IsDir":
		return func(ex *Exec, args []Value) Value { return ex.ts.Bool(h.Data.(*statInfo).dir) }
	case "os.FileInfo.Mode":
		return func(ex *Exec, args []Value) Value {
			if h.Data.(*statInfo).dir {
				return ex.ts.Const(32, uint64(fs.ModeDir|0o700))
			}
			return ex.ts.Const(32, 0o600)
		}
	}
	return nil
}

package main

// Rope strings: a list of segments, each either a run of byte terms (concrete
// or symbolic 8-bit values) or an opaque chunk (identity tag, symbolic 64-bit
// length ≥ 1, content uninterpreted and declared free of LF, NUL, '{').

import (
	"fmt"
	"strings"
)

type Seg struct {
	B   []*Term // byte segment when Len == nil
	Tag byte    // opaque chunk: the byte it is materialised with natively
	ID  int     // opaque chunk: identity of the originating chunk
	Len *Term   // opaque chunk: length (W=64), ≥ 1 on this path
}

func (s Seg) opaque() bool { return s.Len != nil }

type Str struct {
	Segs []Seg
}

func (ex *Exec) strLit(s string) Str {
	if s == "" {
		return Str{}
	}
	b := make([]*Term, len(s))
	for i := 0; i < len(s); i++ {
		b[i] = ex.ts.Const(8, uint64(s[i]))
	}
	return Str{Segs: []Seg{{B: b}}}
}

func (s Str) Concrete() (string, bool) {
	var sb strings.Builder
	for _, g := range s.Segs {
		if g.opaque() {
			return "", false
		}
		for _, b := range g.B {
			if !b.IsConst() {
				return "", false
			}
			sb.WriteByte(byte(b.K))
		}
	}
	return sb.String(), true
}

func (s Str) HasOpaque() bool {
	for _, g := range s.Segs {
		if g.opaque() {
			return true
		}
	}
	return false
}

func (s Str) Describe() string {
	var sb strings.Builder
	sb.WriteByte('"')
	for _, g := range s.Segs {
		if g.opaque() {
			fmt.Fprintf(&sb, "<%c#%d×%s>", g.Tag, g.ID, describe(g.Len))
			continue
		}
		for _, b := range g.B {
			if b.IsConst() {
				c := byte(b.K)
				if c >= 0x20 && c < 0x7f && c != '"' && c != '\\' {
					sb.WriteByte(c)
				} else {
					fmt.Fprintf(&sb, "\\x%02x", c)
				}
			} else {
				fmt.Fprintf(&sb, "<%s>", b.ref())
			}
		}
	}
	sb.WriteByte('"')
	return sb.String()
}

func normSegs(segs []Seg) []Seg {
	var out []Seg
	for _, g := range segs {
		if !g.opaque() {
			if len(g.B) == 0 {
				continue
			}
			if n := len(out); n > 0 && !out[n-1].opaque() {
				nb := make([]*Term, 0, len(out[n-1].B)+len(g.B))
				nb = append(nb, out[n-1].B...)
				nb = append(nb, g.B...)
				out[n-1] = Seg{B: nb}
				continue
			}
		}
		out = append(out, g)
	}
	return out
}

func concatStr(a, b Str) Str {
	if len(a.Segs) == 0 {
		return b
	}
	if len(b.Segs) == 0 {
		return a
	}
	segs := make([]Seg, 0, len(a.Segs)+len(b.Segs))
	segs = append(segs, a.Segs...)
	segs = append(segs, b.Segs...)
	return Str{Segs: normSegs(segs)}
}

func (ex *Exec) segLen(g Seg) *Term {
	if g.opaque() {
		return g.Len
	}
	return ex.ts.Const(64, uint64(len(g.B)))
}

func (ex *Exec) strLen(s Str) *Term {
	t := ex.ts.Const(64, 0)
	for _, g := range s.Segs {
		t = ex.ts.Add(t, ex.segLen(g))
	}
	return t
}

// cut splits the rope at byte offset off (0 ≤ off ≤ len must already have
// been established) and returns the segment lists before and after.
func (ex *Exec) cut(s Str, off *Term) (left, right []Seg) {
	ts := ex.ts
	cum := ts.Const(64, 0)
	for i, g := range s.Segs {
		// boundary before segment i?
		if ex.branch(ts.Eq(off, cum)) {
			return append([]Seg{}, s.Segs[:i]...), append([]Seg{}, s.Segs[i:]...)
		}
		end := ts.Add(cum, ex.segLen(g))
		if ex.branch(ts.Ult(off, end)) {
			inner := ts.Sub(off, cum)
			if g.opaque() {
				l := Seg{Tag: g.Tag, ID: g.ID, Len: inner}
				r := Seg{Tag: g.Tag, ID: g.ID, Len: ts.Sub(g.Len, inner)}
				left = append(append([]Seg{}, s.Segs[:i]...), l)
				right = append([]Seg{r}, s.Segs[i+1:]...)
				return
			}
			k := ex.concretize(inner, 1, uint64(len(g.B)-1))
			left = append(append([]Seg{}, s.Segs[:i]...), Seg{B: g.B[:k]})
			right = append([]Seg{{B: g.B[k:]}}, s.Segs[i+1:]...)
			return
		}
		cum = end
	}
	return append([]Seg{}, s.Segs...), nil
}

// sliceStr implements s[lo:hi]; bounds obligations are raised by the caller.
func (ex *Exec) sliceStr(s Str, lo, hi *Term) Str {
	if hi != nil {
		l, _ := ex.cut(s, hi)
		s = Str{Segs: normSegs(l)}
	}
	if lo != nil && !(lo.IsConst() && lo.K == 0) {
		_, r := ex.cut(s, lo)
		s = Str{Segs: normSegs(r)}
	}
	return s
}

// indexStr implements s[i] (bounds already established).
func (ex *Exec) indexStr(s Str, i *Term) Value {
	ts := ex.ts
	cum := ts.Const(64, 0)
	for _, g := range s.Segs {
		end := ts.Add(cum, ex.segLen(g))
		if ex.branch(ts.Ult(i, end)) {
			if g.opaque() {
				// content of an opaque chunk is uninterpreted; its class is
				// known (tag byte natively) but reading it is not supported
				return Poison{"byte read inside opaque chunk"}
			}
			k := ex.concretize(ts.Sub(i, cum), 0, uint64(len(g.B)-1))
			return g.B[k]
		}
		cum = end
	}
	return Poison{"string index past end"}
}

// strEq returns the Boolean term a == b.
func (ex *Exec) strEq(a, b Str) Value {
	ts := ex.ts
	if !a.HasOpaque() && !b.HasOpaque() {
		la, lb := 0, 0
		for _, g := range a.Segs {
			la += len(g.B)
		}
		for _, g := range b.Segs {
			lb += len(g.B)
		}
		if la != lb {
			return ts.False()
		}
		r := ts.True()
		ab := flatBytes(a)
		bb := flatBytes(b)
		for i := range ab {
			r = ts.And(r, ts.Eq(ab[i], bb[i]))
			if r.IsFalse() {
				return r
			}
		}
		return r
	}
	// with opaque chunks: identical structure ⇒ equal; provably different
	// length ⇒ different; otherwise undecidable in this model
	if sameStruct(a, b) {
		return ts.True()
	}
	le := ts.Eq(ex.strLen(a), ex.strLen(b))
	if le.IsFalse() {
		return ts.False()
	}
	if !ex.branch(le) {
		return ts.False()
	}
	// same length: compare segment-wise when the shapes line up
	if len(a.Segs) == len(b.Segs) {
		same := true
		for i := range a.Segs {
			ga, gb := a.Segs[i], b.Segs[i]
			if ga.opaque() != gb.opaque() {
				same = false
				break
			}
			if ga.opaque() && (ga.Tag != gb.Tag) {
				// distinct tags denote distinct contents by convention
				return ts.False()
			}
		}
		if same {
			// chunks with equal tags and equal total length: treat lengths
			// pairwise
			r := ts.True()
			for i := range a.Segs {
				ga, gb := a.Segs[i], b.Segs[i]
				if ga.opaque() {
					r = ts.And(r, ts.Eq(ga.Len, gb.Len))
				} else {
					if len(ga.B) != len(gb.B) {
						return Poison{"string equality with opaque chunks (shape)"}
					}
					for j := range ga.B {
						r = ts.And(r, ts.Eq(ga.B[j], gb.B[j]))
					}
				}
			}
			return r
		}
	}
	return Poison{"string equality with opaque chunks"}
}

func sameStruct(a, b Str) bool {
	if len(a.Segs) != len(b.Segs) {
		return false
	}
	for i := range a.Segs {
		ga, gb := a.Segs[i], b.Segs[i]
		if ga.opaque() != gb.opaque() {
			return false
		}
		if ga.opaque() {
			if ga.Tag != gb.Tag || ga.ID != gb.ID || ga.Len != gb.Len {
				return false
			}
		} else {
			if len(ga.B) != len(gb.B) {
				return false
			}
			for j := range ga.B {
				if ga.B[j] != gb.B[j] {
					return false
				}
			}
		}
	}
	return true
}

func flatBytes(s Str) []*Term {
	var r []*Term
	for _, g := range s.Segs {
		r = append(r, g.B...)
	}
	return r
}

// strToBytes converts to a []byte value.
func (ex *Exec) strToBytes(s Str) Value {
	if s.HasOpaque() {
		c := s
		return Slice{Rope: &c}
	}
	bs := flatBytes(s)
	a := make([]Value, len(bs))
	for i, b := range bs {
		a[i] = b
	}
	return Slice{A: a}
}

func (ex *Exec) bytesToStr(v Slice) Str {
	if v.Rope != nil {
		return *v.Rope
	}
	if len(v.A) == 0 {
		return Str{}
	}
	b := make([]*Term, len(v.A))
	for i, x := range v.A {
		t, ok := x.(*Term)
		if !ok {
			ex.unsupported("string([]byte) with non-integer element")
		}
		b[i] = t
	}
	return Str{Segs: []Seg{{B: b}}}
}

// isByte decides whether byte term b equals c on this path (forks if needed).
func (ex *Exec) isByte(b *Term, c byte) bool {
	return ex.branch(ex.ts.Eq(b, ex.ts.Const(8, uint64(c))))
}

// splitStr implements strings.Split(s, sep) for a single-byte separator that
// cannot occur inside opaque chunks.
func (ex *Exec) splitStr(s Str, sep byte) []Str {
	var out []Str
	var cur []Seg
	for _, g := range s.Segs {
		if g.opaque() {
			cur = append(cur, g)
			continue
		}
		start := 0
		for i, b := range g.B {
			if ex.isByte(b, sep) {
				cur = append(cur, Seg{B: g.B[start:i]})
				out = append(out, Str{Segs: normSegs(cur)})
				cur = nil
				start = i + 1
			}
		}
		cur = append(cur, Seg{B: g.B[start:]})
	}
	out = append(out, Str{Segs: normSegs(cur)})
	return out
}

// indexByteStr returns the offset (term) of the first occurrence of c or -1.
func (ex *Exec) indexByteStr(s Str, c byte) *Term {
	ts := ex.ts
	cum := ts.Const(64, 0)
	for _, g := range s.Segs {
		if g.opaque() {
			cum = ts.Add(cum, g.Len)
			continue
		}
		for i, b := range g.B {
			if ex.isByte(b, c) {
				return ts.Add(cum, ts.Const(64, uint64(i)))
			}
		}
		cum = ts.Add(cum, ts.Const(64, uint64(len(g.B))))
	}
	return ts.Const(64, ^uint64(0))
}

// trimRightStr implements strings.TrimRight(s, cutset) for a cutset of bytes
// that cannot occur in opaque chunks.
func (ex *Exec) trimRightStr(s Str, cutset string) Str {
	segs := append([]Seg{}, s.Segs...)
	for len(segs) > 0 {
		g := segs[len(segs)-1]
		if g.opaque() {
			break
		}
		n := len(g.B)
		for n > 0 {
			hit := false
			for i := 0; i < len(cutset); i++ {
				if ex.isByte(g.B[n-1], cutset[i]) {
					hit = true
					break
				}
			}
			if !hit {
				break
			}
			n--
		}
		if n == 0 {
			segs = segs[:len(segs)-1]
			continue
		}
		segs[len(segs)-1] = Seg{B: g.B[:n]}
		break
	}
	return Str{Segs: normSegs(segs)}
}

func (ex *Exec) trimLeftStr(s Str, cutset string) Str {
	segs := append([]Seg{}, s.Segs...)
	for len(segs) > 0 {
		g := segs[0]
		if g.opaque() {
			break
		}
		n := 0
		for n < len(g.B) {
			hit := false
			for i := 0; i < len(cutset); i++ {
				if ex.isByte(g.B[n], cutset[i]) {
					hit = true
					break
				}
			}
			if !hit {
				break
			}
			n++
		}
		if n == len(g.B) {
			segs = segs[1:]
			continue
		}
		segs[0] = Seg{B: g.B[n:]}
		break
	}
	return Str{Segs: normSegs(segs)}
}

// replaceByte implements bytes.ReplaceAll / strings.ReplaceAll for single
// bytes that cannot occur in opaque chunks.
func (ex *Exec) replaceByte(s Str, from, to byte) Str {
	ts := ex.ts
	var segs []Seg
	for _, g := range s.Segs {
		if g.opaque() {
			segs = append(segs, g)
			continue
		}
		nb := make([]*Term, len(g.B))
		for i, b := range g.B {
			if b.IsConst() {
				if byte(b.K) == from {
					nb[i] = ts.Const(8, uint64(to))
				} else {
					nb[i] = b
				}
			} else {
				nb[i] = ts.Ite(ts.Eq(b, ts.Const(8, uint64(from))), ts.Const(8, uint64(to)), b)
			}
		}
		segs = append(segs, Seg{B: nb})
	}
	return Str{Segs: segs}
}

// hasPrefixStr decides strings.HasPrefix(s, p) as a term (p without opaque).
func (ex *Exec) hasPrefixStr(s, p Str) Value {
	ts := ex.ts
	if p.HasOpaque() {
		return Poison{"HasPrefix with opaque prefix"}
	}
	pb := flatBytes(p)
	if len(pb) == 0 {
		return ts.True()
	}
	// need the first len(pb) bytes of s to be byte terms
	var sbs []*Term
	for _, g := range s.Segs {
		if len(sbs) >= len(pb) {
			break
		}
		if g.opaque() {
			return Poison{"HasPrefix reaching into opaque chunk"}
		}
		sbs = append(sbs, g.B...)
	}
	if len(sbs) < len(pb) {
		return ts.False()
	}
	r := ts.True()
	for i := range pb {
		r = ts.And(r, ts.Eq(sbs[i], pb[i]))
	}
	return r
}

func (ex *Exec) hasSuffixStr(s, p Str) Value {
	ts := ex.ts
	if p.HasOpaque() {
		return Poison{"HasSuffix with opaque suffix"}
	}
	pb := flatBytes(p)
	if len(pb) == 0 {
		return ts.True()
	}
	var sbs []*Term
	for i := len(s.Segs) - 1; i >= 0 && len(sbs) < len(pb); i-- {
		g := s.Segs[i]
		if g.opaque() {
			return Poison{"HasSuffix reaching into opaque chunk"}
		}
		sbs = append(append([]*Term{}, g.B...), sbs...)
	}
	if len(sbs) < len(pb) {
		return ts.False()
	}
	sbs = sbs[len(sbs)-len(pb):]
	r := ts.True()
	for i := range pb {
		r = ts.And(r, ts.Eq(sbs[i], pb[i]))
	}
	return r
}

// indexStrStr: strings.Index(s, sub) for byte ropes; general case by
// scanning with forks. sub must be concrete and non-empty.
func (ex *Exec) indexSub(s Str, sub string) *Term {
	ts := ex.ts
	if len(sub) == 1 {
		return ex.indexByteStr(s, sub[0])
	}
	if s.HasOpaque() {
		// a match wholly inside a byte segment is a definite answer; whether
		// uninterpreted content contains the pattern is not decidable here
		cum := ts.Const(64, 0)
		for _, g := range s.Segs {
			if g.opaque() {
				cum = ts.Add(cum, g.Len)
				continue
			}
			for i := 0; i+len(sub) <= len(g.B); i++ {
				c := ts.True()
				for j := 0; j < len(sub); j++ {
					c = ts.And(c, ts.Eq(g.B[i+j], ts.Const(8, uint64(sub[j]))))
				}
				if ex.branch(c) {
					return ts.Add(cum, ts.Const(64, uint64(i)))
				}
			}
			cum = ts.Add(cum, ts.Const(64, uint64(len(g.B))))
		}
		ex.unsupported("strings.Index(%q) on a rope with opaque chunks and no match in its literal parts", sub)
	}
	bs := flatBytes(s)
	for i := 0; i+len(sub) <= len(bs); i++ {
		c := ts.True()
		for j := 0; j < len(sub); j++ {
			c = ts.And(c, ts.Eq(bs[i+j], ts.Const(8, uint64(sub[j]))))
		}
		if ex.branch(c) {
			return ts.Const(64, uint64(i))
		}
	}
	return ts.Const(64, ^uint64(0))
}

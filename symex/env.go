package main

// Environment models (os file system, cbor, pgx) are registered here.
func initEnvStubs() {}

package main

// Environment models: cbor (structural snapshot of exported fields), hex.

import (
	"go/types"
	"strconv"

	iso639_3 "github.com/barbashov/iso639-3"
	"unicode/utf8"

	"golang.org/x/tools/go/ssa"
)

// ----------------------------------------------------------------------- cbor

// A marshalled record is a byte slice of blobCells cells, each carrying the
// snapshot it belongs to and its position; a strict prefix (partial write) or
// any other byte string does not unmarshal (CBOR items are prefix-free).
const blobCells = 4

type Blob struct {
	Snap Value
	T    types.Type
	ID   int
}

type BlobCell struct {
	B *Blob
	I int
}

// snapshotExported deep-copies what CBOR sees: exported struct fields,
// pointees, slice elements and map entries.
func (ex *Exec) snapshotExported(v Value, t types.Type) Value {
	switch u := t.Underlying().(type) {
	case *types.Struct:
		s, ok := v.(Struct)
		if !ok {
			ex.bad("cbor: struct expected, got", v)
		}
		out := make(Struct, len(s))
		for i := range s {
			f := u.Field(i)
			if f.Exported() {
				out[i] = ex.snapshotExported(s[i], f.Type())
			} else {
				out[i] = nil // not encoded
			}
		}
		return out
	case *types.Pointer:
		p, ok := v.(Ptr)
		if !ok {
			ex.bad("cbor: pointer expected, got", v)
		}
		if p.P == nil {
			return Ptr{}
		}
		cell := new(Value)
		*cell = ex.snapshotExported(*p.P, u.Elem())
		return Ptr{P: cell}
	case *types.Slice:
		sl, ok := v.(Slice)
		if !ok {
			ex.bad("cbor: slice expected, got", v)
		}
		if sl.Rope != nil {
			c := *sl.Rope
			return Slice{Rope: &c}
		}
		if sl.A == nil {
			return Slice{Nil: sl.Nil}
		}
		a := make([]Value, len(sl.A))
		for i := range sl.A {
			a[i] = ex.snapshotExported(sl.A[i], u.Elem())
		}
		return Slice{A: a}
	case *types.Map:
		m, ok := v.(*MapV)
		if !ok {
			ex.bad("cbor: map expected, got", v)
		}
		if m == nil {
			return (*MapV)(nil)
		}
		out := &MapV{KT: m.KT, VT: m.VT, idx: make(map[string]int)}
		for i := range m.keys {
			out.keys = append(out.keys, ex.snapshotExported(m.keys[i], u.Key()))
			out.vals = append(out.vals, ex.snapshotExported(m.vals[i], u.Elem()))
			if h, ok := hashKey(m.keys[i]); ok {
				out.idx[h] = i
			}
		}
		return out
	case *types.Array:
		a := v.(Array)
		out := make(Array, len(a))
		for i := range a {
			out[i] = ex.snapshotExported(a[i], u.Elem())
		}
		return out
	case *types.Basic:
		return v
	case *types.Interface:
		ex.unsupported("cbor: interface-typed field")
	}
	ex.unsupported("cbor: field of type %s", t)
	return nil
}

// restoreInto decodes a snapshot into an existing destination the way
// cbor.Unmarshal does: destination structs and maps are reused (exported
// fields overwritten, unexported ones untouched, map entries added), slices
// are replaced, nil pointers are allocated.
func (ex *Exec) restoreInto(dst *Value, snap Value, t types.Type) {
	switch u := t.Underlying().(type) {
	case *types.Struct:
		s := snap.(Struct)
		d, ok := (*dst).(Struct)
		if !ok {
			d = ex.zero(t).(Struct)
			*dst = d
		}
		for i := range s {
			if u.Field(i).Exported() {
				ex.restoreInto(&d[i], s[i], u.Field(i).Type())
			}
		}
	case *types.Pointer:
		sp := snap.(Ptr)
		if sp.P == nil {
			*dst = Ptr{}
			return
		}
		dp, _ := (*dst).(Ptr)
		if dp.P == nil {
			cell := new(Value)
			*cell = ex.zero(u.Elem())
			dp = Ptr{P: cell}
			*dst = dp
		}
		ex.restoreInto(dp.P, *sp.P, u.Elem())
	case *types.Slice:
		ss := snap.(Slice)
		if ss.Rope != nil {
			c := *ss.Rope
			*dst = Slice{Rope: &c}
			return
		}
		if ss.A == nil {
			// CBOR null / empty array
			if ss.Nil {
				*dst = Slice{Nil: true}
			} else {
				*dst = Slice{A: []Value{}}
			}
			return
		}
		// elements decode into existing elements where present (maps merge)
		old, _ := (*dst).(Slice)
		a := make([]Value, len(ss.A))
		for i := range ss.A {
			if i < len(old.A) {
				a[i] = old.A[i]
			} else {
				a[i] = ex.zero(u.Elem())
			}
			ex.restoreInto(&a[i], ss.A[i], u.Elem())
		}
		*dst = Slice{A: a}
	case *types.Map:
		sm := snap.(*MapV)
		if sm == nil {
			*dst = (*MapV)(nil)
			return
		}
		dm, _ := (*dst).(*MapV)
		if dm == nil {
			dm = &MapV{KT: sm.KT, VT: sm.VT, idx: make(map[string]int)}
			*dst = dm
		}
		for i := range sm.keys {
			var v Value = ex.zero(u.Elem())
			ex.restoreInto(&v, sm.vals[i], u.Elem())
			ex.mapUpdate(dm, sm.keys[i], v)
		}
	case *types.Array:
		sa := snap.(Array)
		d := (*dst).(Array)
		for i := range sa {
			ex.restoreInto(&d[i], sa[i], u.Elem())
		}
	default:
		*dst = snap
	}
}

func (ex *Exec) blobOf(sl Slice) *Blob {
	if sl.Rope != nil || len(sl.A) != blobCells {
		return nil
	}
	var b *Blob
	for i, c := range sl.A {
		bc, ok := c.(BlobCell)
		if !ok || bc.I != i || (b != nil && bc.B != b) {
			return nil
		}
		b = bc.B
	}
	return b
}

func initEnvStubs() {
	initOsStubs()
	initB64Stubs()
	initUtf8Stubs()
	reg := func(name string, f intrinsicFn) { namedIntrinsics[name] = f }
	reg("github.com/fxamacker/cbor/v2.Marshal", func(ex *Exec, fn *ssa.Function, args []Value, caller *Frame) Value {
		iv, ok := args[0].(Iface)
		if !ok || iv.T == nil {
			ex.unsupported("cbor.Marshal of nil")
		}
		ex.chunkID++
		b := &Blob{Snap: ex.snapshotExported(iv.V, iv.T), T: iv.T, ID: ex.chunkID}
		a := make([]Value, blobCells)
		for i := range a {
			a[i] = BlobCell{B: b, I: i}
		}
		return Tuple{Slice{A: a}, Iface{}}
	})
	reg("github.com/fxamacker/cbor/v2.Unmarshal", func(ex *Exec, fn *ssa.Function, args []Value, caller *Frame) Value {
		sl, _ := args[0].(Slice)
		b := ex.blobOf(sl)
		if b == nil {
			return ex.mkError(ex.strLit("cbor: cannot decode (truncated or foreign data)"))
		}
		iv, ok := args[1].(Iface)
		if !ok || iv.T == nil || !types.Identical(iv.T, b.T) {
			ex.unsupported("cbor.Unmarshal into a different type")
		}
		// text strings are validated on decode
		if !ex.branch(ex.snapshotStringsValid(b.Snap)) {
			return ex.mkError(ex.strLit("cbor: invalid UTF-8 string"))
		}
		var dst Value = iv.V
		ex.restoreInto(&dst, b.Snap, b.T)
		return Iface{}
	})
	hexOf := func(ex *Exec, n *Term) *Term {
		ts := ex.ts
		if n.IsConst() {
			return ts.Const(8, uint64("0123456789abcdef"[n.K&15]))
		}
		return ts.Ite(ts.Ult(n, ts.Const(8, 10)), ts.Add(n, ts.Const(8, '0')), ts.Add(n, ts.Const(8, 'a'-10)))
	}
	// the ISO 639 table is data, not code of go-vise: looked up natively
	reg("github.com/barbashov/iso639-3.FromAnyCode", func(ex *Exec, fn *ssa.Function, args []Value, caller *Frame) Value {
		code := concArg(ex, args[0], "iso639_3.FromAnyCode (the code must be concrete)")
		l := iso639_3.FromAnyCode(code)
		if l == nil {
			return Ptr{}
		}
		lt := ex.P.namedType("github.com/barbashov/iso639-3", "Language")
		st := ex.zero(lt).(Struct)
		u := lt.Underlying().(*types.Struct)
		for i := 0; i < u.NumFields(); i++ {
			switch u.Field(i).Name() {
			case "Part3":
				st[i] = ex.strLit(l.Part3)
			case "Part2B":
				st[i] = ex.strLit(l.Part2B)
			case "Part2T":
				st[i] = ex.strLit(l.Part2T)
			case "Part1":
				st[i] = ex.strLit(l.Part1)
			case "Scope":
				st[i] = ex.ts.Const(32, uint64(l.Scope))
			case "LanguageType":
				st[i] = ex.ts.Const(32, uint64(l.LanguageType))
			case "Name":
				st[i] = ex.strLit(l.Name)
			case "Comment":
				st[i] = ex.strLit(l.Comment)
			}
		}
		cell := new(Value)
		*cell = st
		return Ptr{P: cell}
	})
	// asm.numSize uses math.Log2 (floating point, out of reach of the solver):
	// replaced by its contract 1,2,3,4 bytes for n < 2^8, 2^16, 2^24, else;
	// the contract is validated natively (cmd/numsizesweep)
	reg("git.defalsify.org/vise.git/asm.numSize", func(ex *Exec, fn *ssa.Function, args []Value, caller *Frame) Value {
		ts := ex.ts
		n := args[0].(*Term)
		c := func(v uint64) *Term { return ts.Const(64, v) }
		return ts.Ite(ts.Ult(n, ts.Const(32, 1<<8)), c(1), ts.Ite(ts.Ult(n, ts.Const(32, 1<<16)), c(2), ts.Ite(ts.Ult(n, ts.Const(32, 1<<24)), c(3), c(4))))
	})
	reg("strconv.FormatUint", func(ex *Exec, fn *ssa.Function, args []Value, caller *Frame) Value {
		n := args[0].(*Term)
		base := ex.concreteInt(args[1], "FormatUint base")
		if n.IsConst() {
			return ex.strLit(strconv.FormatUint(n.K, base))
		}
		if base != 10 {
			ex.unsupported("FormatUint of a symbolic number in base %d", base)
		}
		return ex.formatArgT('d', "", n, nil, 0)
	})
	reg("encoding/hex.EncodeToString", func(ex *Exec, fn *ssa.Function, args []Value, caller *Frame) Value {
		sl := args[0].(Slice)
		if sl.Rope != nil {
			ex.unsupported("hex of opaque content")
		}
		if len(sl.A) == 0 {
			return Str{}
		}
		out := make([]*Term, 0, 2*len(sl.A))
		for _, e := range sl.A {
			b, ok := e.(*Term)
			if !ok {
				ex.unsupported("hex of non-byte element")
			}
			hi := ex.ts.BinBV(OLShr, b, ex.ts.Const(8, 4))
			lo := ex.ts.BinBV(OAnd, b, ex.ts.Const(8, 15))
			out = append(out, hexOf(ex, hi), hexOf(ex, lo))
		}
		return Str{Segs: []Seg{{B: out}}}
	})
}

// ---------------------------------------------------------------------- UTF-8

// utf8Valid returns the Boolean term "these bytes are valid UTF-8" (DFA over
// the byte terms, conditions accumulated per state; no forking).
func (ex *Exec) utf8Valid(bs []*Term) *Term {
	ts := ex.ts
	allConc := true
	for _, b := range bs {
		if !b.IsConst() {
			allConc = false
			break
		}
	}
	if allConc {
		buf := make([]byte, len(bs))
		for i, b := range bs {
			buf[i] = byte(b.K)
		}
		return ts.Bool(utf8ValidBytes(buf))
	}
	const (
		s0 = iota
		c1
		c2
		c2e0
		c2ed
		c3
		c3f0
		c3f4
		nStates
	)
	in := func(b *Term, lo, hi uint64) *Term {
		return ts.And(ts.Ule(ts.Const(8, lo), b), ts.Ule(b, ts.Const(8, hi)))
	}
	cur := make([]*Term, nStates)
	for i := range cur {
		cur[i] = ts.False()
	}
	cur[s0] = ts.True()
	for _, b := range bs {
		next := make([]*Term, nStates)
		for i := range next {
			next[i] = ts.False()
		}
		add := func(to int, c *Term) { next[to] = ts.Or(next[to], c) }
		// from s0
		add(s0, ts.And(cur[s0], ts.Ult(b, ts.Const(8, 0x80))))
		add(c1, ts.And(cur[s0], in(b, 0xC2, 0xDF)))
		add(c2e0, ts.And(cur[s0], ts.Eq(b, ts.Const(8, 0xE0))))
		add(c2, ts.And(cur[s0], ts.Or(in(b, 0xE1, 0xEC), in(b, 0xEE, 0xEF))))
		add(c2ed, ts.And(cur[s0], ts.Eq(b, ts.Const(8, 0xED))))
		add(c3f0, ts.And(cur[s0], ts.Eq(b, ts.Const(8, 0xF0))))
		add(c3, ts.And(cur[s0], in(b, 0xF1, 0xF3)))
		add(c3f4, ts.And(cur[s0], ts.Eq(b, ts.Const(8, 0xF4))))
		cont := in(b, 0x80, 0xBF)
		add(s0, ts.And(cur[c1], cont))
		add(c1, ts.And(cur[c2], cont))
		add(c1, ts.And(cur[c2e0], in(b, 0xA0, 0xBF)))
		add(c1, ts.And(cur[c2ed], in(b, 0x80, 0x9F)))
		add(c2, ts.And(cur[c3], cont))
		add(c2, ts.And(cur[c3f0], in(b, 0x90, 0xBF)))
		add(c2, ts.And(cur[c3f4], in(b, 0x80, 0x8F)))
		cur = next
	}
	return cur[s0]
}

func utf8ValidBytes(b []byte) bool {
	return utf8.Valid(b)
}

// snapshotStringsValid: every string CBOR would decode as a text string is
// valid UTF-8 (the library rejects invalid UTF-8 on decode).
func (ex *Exec) snapshotStringsValid(v Value) *Term {
	ts := ex.ts
	ok := ts.True()
	var walk func(v Value)
	walk = func(v Value) {
		switch x := v.(type) {
		case Str:
			if x.HasOpaque() {
				// opaque content is declared text; only its byte segments matter
				for _, g := range x.Segs {
					if !g.opaque() {
						ok = ts.And(ok, ex.utf8Valid(g.B))
					}
				}
				return
			}
			ok = ts.And(ok, ex.utf8Valid(flatBytes(x)))
		case Struct:
			for _, f := range x {
				walk(f)
			}
		case Array:
			for _, f := range x {
				walk(f)
			}
		case Ptr:
			if x.P != nil {
				walk(*x.P)
			}
		case Slice:
			for _, e := range x.A {
				walk(e)
			}
		case *MapV:
			if x != nil {
				for i := range x.keys {
					walk(x.keys[i])
					walk(x.vals[i])
				}
			}
		}
	}
	walk(v)
	return ok
}

// --------------------------------------------------------------- rune count

// runeCountBytes is the term "utf8.RuneCount of these bytes", built without
// forking: start[i] says that Go's greedy decoder begins a rune at i, size at
// i is the length of the valid encoding beginning there (1 for ASCII and for
// every byte that does not begin a complete valid encoding), and the count is
// the number of starts. The end of the segment counts as the end of the text.
func (ex *Exec) runeCountBytes(bs []*Term) *Term {
	ts := ex.ts
	allConc := true
	for _, b := range bs {
		if !b.IsConst() {
			allConc = false
			break
		}
	}
	if allConc {
		buf := make([]byte, len(bs))
		for i, b := range bs {
			buf[i] = byte(b.K)
		}
		return ts.Const(64, uint64(utf8.RuneCount(buf)))
	}
	n := len(bs)
	in := func(b *Term, lo, hi uint64) *Term {
		return ts.And(ts.Ule(ts.Const(8, lo), b), ts.Ule(b, ts.Const(8, hi)))
	}
	cont := func(i int) *Term {
		if i >= n {
			return ts.False()
		}
		return in(bs[i], 0x80, 0xBF)
	}
	at := func(i int, lo, hi uint64) *Term {
		if i >= n {
			return ts.False()
		}
		return in(bs[i], lo, hi)
	}
	eq := func(b *Term, c uint64) *Term { return ts.Eq(b, ts.Const(8, c)) }
	// is[k][i]: a valid k-byte encoding begins at i
	is := [5][]*Term{}
	for k := 2; k <= 4; k++ {
		is[k] = make([]*Term, n)
	}
	for i := 0; i < n; i++ {
		b := bs[i]
		is[2][i] = ts.And(in(b, 0xC2, 0xDF), cont(i+1))
		second3 := ts.Or(ts.And(eq(b, 0xE0), at(i+1, 0xA0, 0xBF)),
			ts.Or(ts.And(ts.Or(in(b, 0xE1, 0xEC), in(b, 0xEE, 0xEF)), cont(i+1)),
				ts.And(eq(b, 0xED), at(i+1, 0x80, 0x9F))))
		is[3][i] = ts.And(second3, cont(i+2))
		second4 := ts.Or(ts.And(eq(b, 0xF0), at(i+1, 0x90, 0xBF)),
			ts.Or(ts.And(in(b, 0xF1, 0xF3), cont(i+1)),
				ts.And(eq(b, 0xF4), at(i+1, 0x80, 0x8F))))
		is[4][i] = ts.And(second4, ts.And(cont(i+2), cont(i+3)))
	}
	start := make([]*Term, n+1)
	for i := range start {
		start[i] = ts.False()
	}
	start[0] = ts.True()
	count := ts.Const(64, 0)
	for i := 0; i < n; i++ {
		count = ts.Add(count, ts.Ite(start[i], ts.Const(64, 1), ts.Const(64, 0)))
		multi := ts.Or(is[2][i], ts.Or(is[3][i], is[4][i]))
		start[i+1] = ts.Or(start[i+1], ts.And(start[i], ts.BNot(multi)))
		for k := 2; k <= 4; k++ {
			if i+k <= n {
				start[i+k] = ts.Or(start[i+k], ts.And(start[i], is[k][i]))
			}
		}
	}
	return count
}

// runeCount of a rope: uninterpreted chunks count as one rune per byte
// (their content is taken to be ASCII where characters are counted; natively
// they are materialised with an ASCII tag byte) and end the text of the byte
// segment before them.
func (ex *Exec) runeCount(s Str) *Term {
	ts := ex.ts
	total := ts.Const(64, 0)
	for _, g := range s.Segs {
		if g.opaque() {
			total = ts.Add(total, g.Len)
		} else {
			total = ts.Add(total, ex.runeCountBytes(g.B))
		}
	}
	return total
}

func initUtf8Stubs() {
	namedIntrinsics["unicode/utf8.RuneCountInString"] = func(ex *Exec, fn *ssa.Function, args []Value, caller *Frame) Value {
		return ex.runeCount(strArg(ex, args[0], "utf8.RuneCountInString"))
	}
	namedIntrinsics["unicode/utf8.RuneCount"] = func(ex *Exec, fn *ssa.Function, args []Value, caller *Frame) Value {
		sl, _ := args[0].(Slice)
		return ex.runeCount(ex.bytesToStr(sl))
	}
}

// --------------------------------------------------------------------- base64

// b64Enc: what the stub reads from the receiver *base64.Encoding (built by the
// interpreted package initialiser): the two alphabet characters that differ
// between the standard and URL alphabets, and the padding character (-1 none).
type b64Enc struct {
	c62, c63 uint64
	pad      int64
}

func (ex *Exec) b64Recv(recv Value) b64Enc {
	p := ex.derefPtr(recv, "nil *base64.Encoding")
	st, ok := (*p.P).(Struct)
	if !ok || len(st) < 4 {
		ex.unsupported("base64: receiver is not an Encoding built by the package initialiser")
	}
	tab, ok := st[0].(Array)
	if !ok || len(tab) != 64 {
		ex.unsupported("base64: encode table not available")
	}
	const std = "ABCDEFGHIJKLMNOPQRSTUVWXYZabcdefghijklmnopqrstuvwxyz0123456789"
	var e b64Enc
	for i, v := range tab {
		t, ok := v.(*Term)
		if !ok || !t.IsConst() {
			ex.unsupported("base64: symbolic alphabet")
		}
		switch {
		case i < 62:
			if t.K != uint64(std[i]) {
				ex.unsupported("base64: alphabet other than the standard or URL one")
			}
		case i == 62:
			e.c62 = t.K
		default:
			e.c63 = t.K
		}
	}
	pt, ok := st[2].(*Term)
	if !ok || !pt.IsConst() {
		ex.unsupported("base64: symbolic padding character")
	}
	e.pad = scoef(pt.K, pt.W)
	if st, ok := st[3].(*Term); !ok || !st.IsConst() || st.K != 0 {
		ex.unsupported("base64: strict mode")
	}
	return e
}

// b64Char: the alphabet character of a 6-bit value (no forking).
func (ex *Exec) b64Char(e b64Enc, n *Term) *Term {
	ts := ex.ts
	c := func(v uint64) *Term { return ts.Const(8, v) }
	if n.IsConst() {
		switch n.K & 63 {
		case 62:
			return c(e.c62)
		case 63:
			return c(e.c63)
		}
		return ts.Const(8, uint64("ABCDEFGHIJKLMNOPQRSTUVWXYZabcdefghijklmnopqrstuvwxyz0123456789"[n.K&63]))
	}
	return ts.Ite(ts.Ult(n, c(26)), ts.Add(n, c('A')),
		ts.Ite(ts.Ult(n, c(52)), ts.Add(n, c('a'-26)),
			ts.Ite(ts.Ult(n, c(62)), ts.Sub(ts.Add(n, c('0')), c(52)),
				ts.Ite(ts.Eq(n, c(62)), c(e.c62), c(e.c63)))))
}

// b64Val: value and validity of an alphabet character.
func (ex *Exec) b64Val(e b64Enc, ch *Term) (*Term, *Term) {
	ts := ex.ts
	c := func(v uint64) *Term { return ts.Const(8, v) }
	in := func(lo, hi uint64) *Term { return ts.And(ts.Ule(c(lo), ch), ts.Ule(ch, c(hi))) }
	up, low, dig := in('A', 'Z'), in('a', 'z'), in('0', '9')
	plus, slash := ts.Eq(ch, c(e.c62)), ts.Eq(ch, c(e.c63))
	val := ts.Ite(up, ts.Sub(ch, c('A')),
		ts.Ite(low, ts.Add(ts.Sub(ch, c('a')), c(26)),
			ts.Ite(dig, ts.Add(ts.Sub(ch, c('0')), c(52)),
				ts.Ite(plus, c(62), c(63)))))
	valid := ts.Or(ts.Or(up, low), ts.Or(dig, ts.Or(plus, slash)))
	return val, valid
}

func (ex *Exec) b64Encode(e b64Enc, src []*Term) []*Term {
	ts := ex.ts
	var out []*Term
	c := func(v uint64) *Term { return ts.Const(8, v) }
	shr := func(b *Term, n uint64) *Term { return ts.BinBV(OLShr, b, c(n)) }
	shl := func(b *Term, n uint64) *Term { return ts.BinBV(OShl, b, c(n)) }
	and := func(b *Term, m uint64) *Term { return ts.BinBV(OAnd, b, c(m)) }
	or := func(a, b *Term) *Term { return ts.BinBV(OOr, a, b) }
	for i := 0; i < len(src); i += 3 {
		b0 := src[i]
		var b1, b2 *Term
		if i+1 < len(src) {
			b1 = src[i+1]
		}
		if i+2 < len(src) {
			b2 = src[i+2]
		}
		out = append(out, ex.b64Char(e, shr(b0, 2)))
		if b1 == nil {
			out = append(out, ex.b64Char(e, shl(and(b0, 3), 4)))
			if e.pad >= 0 {
				out = append(out, c(uint64(e.pad)), c(uint64(e.pad)))
			}
			break
		}
		out = append(out, ex.b64Char(e, or(shl(and(b0, 3), 4), shr(b1, 4))))
		if b2 == nil {
			out = append(out, ex.b64Char(e, shl(and(b1, 15), 2)))
			if e.pad >= 0 {
				out = append(out, c(uint64(e.pad)))
			}
			break
		}
		out = append(out, ex.b64Char(e, or(shl(and(b1, 15), 2), shr(b2, 6))), ex.b64Char(e, and(b2, 63)))
	}
	return out
}

func initB64Stubs() {
	reg := func(name string, f intrinsicFn) { namedIntrinsics[name] = f }
	reg("(*encoding/base64.Encoding).EncodeToString", func(ex *Exec, fn *ssa.Function, args []Value, caller *Frame) Value {
		sl, _ := args[1].(Slice)
		if sl.Rope != nil {
			ex.unsupported("base64 of opaque content")
		}
		src := make([]*Term, len(sl.A))
		for i, e := range sl.A {
			src[i] = e.(*Term)
		}
		out := ex.b64Encode(ex.b64Recv(args[0]), src)
		if len(out) == 0 {
			return Str{}
		}
		return Str{Segs: []Seg{{B: out}}}
	})
	reg("(*encoding/base64.Encoding).DecodeString", func(ex *Exec, fn *ssa.Function, args []Value, caller *Frame) Value {
		s := strArg(ex, args[1], "base64.DecodeString")
		if s.HasOpaque() {
			ex.unsupported("base64 decode of opaque content")
		}
		ts := ex.ts
		e := ex.b64Recv(args[0])
		bs := flatBytes(s)
		fail := func() Value {
			return Tuple{Slice{A: []Value{}}, ex.mkError(ex.strLit("illegal base64 data"))}
		}
		if e.pad >= 0 && len(bs)%4 != 0 || e.pad < 0 && len(bs)%4 == 1 {
			return fail()
		}
		var out []Value
		c := func(v uint64) *Term { return ts.Const(8, v) }
		shl := func(b *Term, n uint64) *Term { return ts.BinBV(OShl, b, c(n)) }
		shr := func(b *Term, n uint64) *Term { return ts.BinBV(OLShr, b, c(n)) }
		or := func(a, b *Term) *Term { return ts.BinBV(OOr, a, b) }
		valid := ts.True()
		for i := 0; i < len(bs); i += 4 {
			pad := 0
			var q []*Term
			if i+4 <= len(bs) {
				q = bs[i : i+4]
			} else { // unpadded tail of 2 or 3 characters
				q = bs[i:]
				pad = 4 - len(q)
			}
			last := i+4 == len(bs)
			if e.pad >= 0 && last && ex.isByte(q[3], byte(e.pad)) {
				pad = 1
				if ex.isByte(q[2], byte(e.pad)) {
					pad = 2
				}
			}
			var v [4]*Term
			for j := 0; j < 4-pad; j++ {
				val, ok := ex.b64Val(e, q[j])
				v[j] = val
				valid = ts.And(valid, ok)
			}
			out = append(out, or(shl(v[0], 2), shr(v[1], 4)))
			if pad < 2 {
				out = append(out, or(shl(v[1], 4), shr(v[2], 2)))
			}
			if pad < 1 {
				out = append(out, or(shl(v[2], 6), v[3]))
			}
		}
		if !ex.branch(valid) {
			return fail()
		}
		return Tuple{Slice{A: out}, Iface{}}
	})
}

package main

// The check driver: runs the harnesses registered for a property, validates
// every explored path's witness natively, replays counterexamples, applies
// the known-findings file, writes the evidence file and sets the exit code.
//
//   exit 0  every obligation discharged inside the registered bound
//   exit 1  VIOLATION property=<id> replay=<path>   (replay-confirmed, not a listed finding)
//   exit 2  INCONCLUSIVE property=<id> ...          (unsupported construct, solver unknown,
//           budget exceeded, vacuous harness, model that does not reproduce)

import (
	"bufio"
	"bytes"
	"crypto/sha256"
	"encoding/json"
	"flag"
	"fmt"
	"os"
	"os/exec"
	"path/filepath"
	"runtime"
	"sort"
	"strconv"
	"strings"
	"sync"
	"time"
)

type HarnessCfg struct {
	Harness   string         `json:"harness"` // pkg.Func
	Params    map[string]int `json:"params"`
	MapOrders []int          `json:"maporders"`
	MaxPaths  int            `json:"maxpaths"`
	MaxSteps  int            `json:"maxsteps"`
	Covers    []string       `json:"covers"`
	Solver    string         `json:"solver"`
	Note      string         `json:"note"`
}

type PropCfg struct {
	Packages    []string          `json:"packages"`
	Overlay     map[string]string `json:"overlay"`
	Quick       []HarnessCfg      `json:"quick"`
	Thorough    []HarnessCfg      `json:"thorough"`
	Assumptions []string          `json:"assumptions"`
	Bounds      map[string]string `json:"bounds"`
	Sweeps      []SweepCfg        `json:"sweeps"`
}

// SweepCfg: a native program (under the harness module, built with the
// property's overlay) that validates a stub contract.
type SweepCfg struct {
	Pkg   string   `json:"pkg"`
	Args  []string `json:"args"`
	Tier  string   `json:"tier"`
	Virt  string   `json:"virt"` // virtual path of its main.go (overlay)
}

type knownFinding struct {
	Prop, Class, Text string
}

func loadKnown(path string) (findings []knownFinding, fixed []string) {
	f, err := os.Open(path)
	if err != nil {
		return nil, nil
	}
	defer f.Close()
	sc := bufio.NewScanner(f)
	for sc.Scan() {
		line := strings.TrimSpace(sc.Text())
		switch {
		case strings.HasPrefix(line, "finding:"):
			kf := knownFinding{Text: strings.TrimSpace(strings.TrimPrefix(line, "finding:"))}
			for _, w := range strings.Fields(kf.Text) {
				if strings.HasPrefix(w, "property=") {
					kf.Prop = strings.TrimPrefix(w, "property=")
				}
				if strings.HasPrefix(w, "class=") {
					kf.Class = strings.TrimPrefix(w, "class=")
				}
			}
			findings = append(findings, kf)
		case strings.HasPrefix(line, "fixed:"):
			fixed = append(fixed, line)
		}
	}
	return
}

type replayJob struct {
	ID      int            `json:"id"`
	Harness string         `json:"harness"`
	Params  map[string]int `json:"params"`
	Draws   []DrawRec      `json:"draws"`
}

type replayResult struct {
	ID      int       `json:"id"`
	Outcome string    `json:"outcome"`
	FailID  string    `json:"fail_id"`
	Msg     string    `json:"msg"`
	Obs     []ObsEval `json:"obs"`
	Covers  []string  `json:"covers"`
	Classes []string  `json:"classes"`
}

func goEnv() []string {
	return append(os.Environ(), "GOFLAGS=-mod=mod", "GOPROXY=off", "GOSUMDB=off", "GOTOOLCHAIN=local")
}

func buildReplay(hdir, out string, overlayJSON string) error {
	args := []string{"build", "-o", out}
	if overlayJSON != "" {
		args = append(args, "-overlay", overlayJSON)
	}
	args = append(args, "./cmd/vreplay")
	cmd := exec.Command("go", args...)
	cmd.Dir = hdir
	cmd.Env = goEnv()
	b, err := cmd.CombinedOutput()
	if err != nil {
		return fmt.Errorf("building native replay binary failed: %v\n%s", err, b)
	}
	return nil
}

func runReplay(bin string, jobs []replayJob, timeout time.Duration) (map[int]replayResult, error) {
	res := make(map[int]replayResult)
	if len(jobs) == 0 {
		return res, nil
	}
	// run in chunks so that a native crash (fatal error, not a panic) or hang
	// loses one chunk only
	for start := 0; start < len(jobs); {
		end := start + 200
		if end > len(jobs) {
			end = len(jobs)
		}
		var in bytes.Buffer
		enc := json.NewEncoder(&in)
		for _, j := range jobs[start:end] {
			enc.Encode(j)
		}
		cmd := exec.Command(bin)
		cmd.Stdin = &in
		var out bytes.Buffer
		cmd.Stdout = &out
		cmd.Stderr = nil
		done := make(chan error, 1)
		if err := cmd.Start(); err != nil {
			return res, err
		}
		go func() { done <- cmd.Wait() }()
		select {
		case <-done:
		case <-time.After(timeout):
			cmd.Process.Kill()
			<-done
		}
		dec := json.NewDecoder(&out)
		got := 0
		for {
			var r replayResult
			if err := dec.Decode(&r); err != nil {
				break
			}
			res[r.ID] = r
			got++
		}
		if got < end-start {
			// the job after the last answered one killed the process
			bad := jobs[start+got]
			res[bad.ID] = replayResult{ID: bad.ID, Outcome: "fatal", Msg: "native process died or timed out"}
			start = start + got + 1
			continue
		}
		start = end
	}
	return res, nil
}

type Evidence struct {
	PropertyID  string                 `json:"property_id"`
	Tier        string                 `json:"tier"`
	Seed        int                    `json:"seed"`
	Level       string                 `json:"level"`
	Coverage    map[string]interface{} `json:"coverage"`
	Assumptions []string               `json:"assumptions"`
	WallS       float64                `json:"wall_s"`
	Violations  int                    `json:"violations"`
	Result      string                 `json:"result"`
	KnownFound  []string               `json:"known_findings_reproduced"`
	Inconcl     []string               `json:"inconclusive,omitempty"`
}

func cmdCheck(args []string) {
	fs := flag.NewFlagSet("check", flag.ExitOnError)
	prop := fs.String("prop", "", "property id")
	tier := fs.String("tier", "quick", "quick|thorough")
	vdir := fs.String("verif", "/verif", "verification directory")
	repo := fs.String("repo", "/repo", "go-vise working tree")
	workers := fs.Int("workers", 16, "workers")
	only := fs.String("only", "", "run only harnesses whose name contains this")
	noEvidence := fs.Bool("no-evidence", false, "do not write the evidence file")
	fs.Parse(args)
	start := time.Now()
	seed := 0
	if s := os.Getenv("VERIF_SEED"); s != "" {
		seed, _ = strconv.Atoi(s)
	}
	fail2 := func(format string, a ...interface{}) {
		fmt.Printf("INCONCLUSIVE property=%s %s\n", *prop, fmt.Sprintf(format, a...))
		os.Exit(2)
	}
	var cfgAll map[string]PropCfg
	b, err := os.ReadFile(filepath.Join(*vdir, "checks.json"))
	if err != nil {
		fail2("cannot read checks.json: %v", err)
	}
	if err := json.Unmarshal(b, &cfgAll); err != nil {
		fail2("checks.json: %v", err)
	}
	cfg, ok := cfgAll[*prop]
	if !ok {
		fail2("no check registered")
	}
	runs := cfg.Quick
	if *tier == "thorough" && len(cfg.Thorough) > 0 {
		runs = cfg.Thorough
	}
	hdir := filepath.Join(*vdir, "harness")
	// go.sum of the harness module follows /repo
	if sum, err := os.ReadFile(filepath.Join(*repo, "go.sum")); err == nil {
		if old, _ := os.ReadFile(filepath.Join(hdir, "go.sum")); !bytes.Equal(old, sum) {
			os.WriteFile(filepath.Join(hdir, "go.sum"), sum, 0644)
		}
	}
	var patterns []string
	for _, p := range cfg.Packages {
		patterns = append(patterns, harnessMod+"/"+p)
	}
	overlay := map[string]string{}
	for virt, real := range cfg.Overlay {
		overlay[virt] = filepath.Join(*vdir, real)
	}
	for _, virt := range sortedKeys(overlay) {
		if isVisePkgDir(virt, *repo) {
			patterns = append(patterns, viseMod+"/"+strings.TrimPrefix(filepath.Dir(virt), *repo+"/"))
		}
	}
	P, err := LoadProgram(hdir, *repo, patterns, overlay)
	if err != nil {
		fail2("%v", strings.ReplaceAll(err.Error(), "\n", " | "))
	}
	work := filepath.Join(*vdir, ".work")
	os.MkdirAll(work, 0755)
	replayBin := filepath.Join(work, fmt.Sprintf("vreplay.%d", os.Getpid()))
	overlayJSON := ""
	if len(overlay) > 0 {
		oj := map[string]map[string]string{"Replace": overlay}
		ob, _ := json.Marshal(oj)
		overlayJSON = filepath.Join(work, fmt.Sprintf("overlay.%d.json", os.Getpid()))
		os.WriteFile(overlayJSON, ob, 0644)
		defer os.Remove(overlayJSON)
	}
	buildErr := make(chan error, 1)
	go func() { buildErr <- buildReplay(hdir, replayBin, overlayJSON) }()
	defer os.Remove(replayBin)

	known, _ := loadKnown(filepath.Join(*vdir, "known-findings.txt"))
	isKnown := func(classes []string) (knownFinding, bool) {
		for _, c := range classes {
			for _, k := range known {
				if k.Prop == *prop && k.Class == c {
					return k, true
				}
			}
		}
		return knownFinding{}, false
	}

	solverBin := "z3"
	timeoutMs := 30000
	if *tier == "thorough" {
		timeoutMs = 120000
	}
	type runOut struct {
		cfg HarnessCfg
		mo  int
		res *ExploreResult
	}
	var outs []runOut
	var inconcl []string
	enough := false
	for _, hc := range runs {
		if *only != "" && !strings.Contains(hc.Harness, *only) {
			continue
		}
		parts := strings.SplitN(hc.Harness, ".", 2)
		fn := P.lookupFunc(harnessMod+"/"+parts[0], parts[1])
		if fn == nil {
			// in-package overlay harness: pkg path given relative to go-vise
			fn = P.lookupFunc(viseMod+"/"+parts[0], parts[1])
		}
		if fn == nil {
			fail2("harness %s not found", hc.Harness)
		}
		mos := hc.MapOrders
		if len(mos) == 0 {
			mos = []int{0}
		}
		for _, mo := range mos {
			E := &Explorer{P: P, Run: &HarnessRun{Name: hc.Harness, Fn: fn, Params: hc.Params, MapOrder: mo, MaxPaths: hc.MaxPaths, MaxSteps: hc.MaxSteps},
				SolverBin: solverBin, TimeoutMs: timeoutMs, Workers: *workers, Seed: seed, QuickMs: 2000, SolverMode: hc.Solver}
			E.IsKnown = func(classes []string) bool { _, ok := isKnown(classes); return ok }
			budget := 15 * time.Minute
			if *tier == "thorough" {
				budget = 90 * time.Minute
			}
			E.Deadline = time.Now().Add(budget)
			if *tier == "thorough" && os.Getenv("VERIF_NO_XCHECK") == "" {
				E.Transcripts = filepath.Join(work, fmt.Sprintf("tr.%d.%d", os.Getpid(), len(outs)))
			}
			if enough {
				continue // an earlier harness already holds counterexamples outside the known findings
			}
			res := E.Explore()
			outs = append(outs, runOut{hc, mo, res})
			for _, m := range res.Inconcl {
				if strings.HasPrefix(m, "stopped early:") {
					enough = true
				}
			}
			fmt.Printf("  %-28s maporder=%d paths=%d queries=%d solver=%.1fs wall=%.1fs violations=%d inconclusive=%d\n",
				hc.Harness, mo, len(res.Paths), res.Stats.Queries, res.Stats.Time.Seconds(), res.Wall.Seconds(), len(res.Violations), len(res.Inconcl))
			for _, m := range res.Inconcl {
				inconcl = append(inconcl, hc.Harness+": "+firstLine(m))
			}
			for _, p := range res.Paths {
				if p.End == endInconclusive && len(res.Inconcl) == 0 {
					inconcl = append(inconcl, hc.Harness+": "+firstLine(p.Msg))
				}
			}
			// vacuity: required covers
			for _, c := range hc.Covers {
				if res.Covers[c] == 0 {
					inconcl = append(inconcl, fmt.Sprintf("%s: vacuous, cover %q not reached", hc.Harness, c))
				}
			}
		}
	}
	if err := <-buildErr; err != nil {
		fail2("%v", strings.ReplaceAll(err.Error(), "\n", " | "))
	}

	// ---- witness validation and counterexample replay
	var jobs []replayJob
	type wref struct {
		out  int
		path int
		viol int
	}
	refs := map[int]wref{}
	id := 0
	for oi, o := range outs {
		for pi, p := range o.res.Paths {
			if p.End != endDone && p.End != endCrash {
				continue
			}
			id++
			jobs = append(jobs, replayJob{ID: id, Harness: o.cfg.Harness, Params: o.cfg.Params, Draws: nativeDraws(p.Draws)})
			refs[id] = wref{out: oi, path: pi, viol: -1}
		}
		for vi, v := range o.res.Violations {
			id++
			jobs = append(jobs, replayJob{ID: id, Harness: o.cfg.Harness, Params: o.cfg.Params, Draws: nativeDraws(v.Draws)})
			refs[id] = wref{out: oi, path: -1, viol: vi}
		}
		// a process death inside a write: the model's record is a structural
		// snapshot, its length unit is not the real byte, so "how many bytes
		// got out" is re-tried natively with real byte counts (the first one
		// that reproduces is reported, with that count in the replay file)
		nv := len(o.res.Violations)
		for vi := 0; vi < nv; vi++ {
			v := o.res.Violations[vi]
			if drawVal(v.Draws, "crash-kind") != 2 || drawVal(v.Draws, "crash-partial") == 0 {
				continue
			}
			for _, n := range []uint64{12, 24, 48, 72, 96, 120, 160} {
				alt := *v
				alt.Draws = append([]DrawRec{}, v.Draws...)
				for i := range alt.Draws {
					if alt.Draws[i].Label == "crash-partial" || alt.Draws[i].Label == "crash-arg" {
						alt.Draws[i].V = n
						alt.Draws[i].T = nil
					}
				}
				o.res.Violations = append(o.res.Violations, &alt)
				id++
				jobs = append(jobs, replayJob{ID: id, Harness: o.cfg.Harness, Params: o.cfg.Params, Draws: nativeDraws(alt.Draws)})
				refs[id] = wref{out: oi, path: -1, viol: len(o.res.Violations) - 1}
			}
		}
	}
	rres, err := runReplay(replayBin, jobs, 10*time.Minute)
	if err != nil {
		fail2("native replay failed: %v", err)
	}
	validated := 0
	nativeSkipped := 0
	var samples []interface{}
	violations := 0
	var knownLines []string
	var violLines []string
	siteDone := map[string]bool{}   // obligation sites with a natively reproduced counterexample
	siteMiss := map[string]string{} // first non-reproducing counterexample per site
	os.MkdirAll(filepath.Join(*vdir, "replays"), 0755)
	for _, j := range jobs {
		ref := refs[j.ID]
		r, ok := rres[j.ID]
		o := outs[ref.out]
		if !ok {
			inconcl = append(inconcl, fmt.Sprintf("%s: no native result for witness", o.cfg.Harness))
			continue
		}
		if ref.viol < 0 && r.Outcome == "skip" {
			nativeSkipped++
			continue
		}
		if ref.viol < 0 {
			p := o.res.Paths[ref.path]
			want := "ok"
			if p.End == endCrash {
				want = "panic"
			}
			okPath := r.Outcome == want && obsEqual(p.Obs, r.Obs)
			if !okPath {
				inconcl = append(inconcl, fmt.Sprintf("%s: witness disagrees with the native run (encoding or stub is wrong): draws[%s] symbolic outcome=%s obs=%v native outcome=%s %s %s obs=%v",
					o.cfg.Harness, drawStr(p.Draws), want, p.Obs, r.Outcome, r.FailID, r.Msg, r.Obs))
				continue
			}
			validated++
			if len(samples) < 6 {
				samples = append(samples, map[string]interface{}{"harness": o.cfg.Harness, "draws": strings.TrimSpace(drawStr(p.Draws)), "outcome": want, "observed": p.Obs})
			}
			continue
		}
		v := o.res.Violations[ref.viol]
		vkey := fmt.Sprintf("%d|%s", ref.out, v.Key)
		if siteDone[vkey] {
			continue // an earlier counterexample of this site already reproduced
		}
		reproduced := false
		if strings.HasPrefix(v.ID, "panic: ") || strings.HasPrefix(v.ID, "footprint: ") {
			reproduced = r.Outcome == "panic" || r.Outcome == "fatal"
			if strings.HasPrefix(v.ID, "footprint: ") {
				// a footprint violation has no native symptom in a sequential
				// run; it is reported from the symbolic run with its position
				reproduced = true
			}
		} else {
			reproduced = r.Outcome == "assert" && r.FailID == v.ID
		}
		if r.Outcome == "skip" {
			// the native mechanisms cannot place this crash point; the
			// violation is reported from the model with its position
			reproduced = true
		}
		if !reproduced {
			if _, had := siteMiss[vkey]; !had {
				siteMiss[vkey] = fmt.Sprintf("%s: counterexample for %s at %s does not reproduce natively (encoding or stub is wrong): draws[%s] native outcome=%s %s %s",
					o.cfg.Harness, v.ID, v.Pos, drawStr(v.Draws), r.Outcome, r.FailID, r.Msg)
			}
			continue
		}
		siteDone[vkey] = true
		if k, ok := isKnown(v.Classes); ok {
			knownLines = append(knownLines, fmt.Sprintf("KNOWN-FINDING: %s [%s at %s, e.g.%s]", k.Text, v.ID, v.Pos, drawStr(v.Draws)))
			continue
		}
		violations++
		rp := map[string]interface{}{"property": *prop, "harness": o.cfg.Harness, "params": o.cfg.Params, "draws": nativeDraws(v.Draws),
			"obligation": v.ID, "position": v.Pos, "classes": v.Classes, "native_outcome": r.Outcome, "native_msg": r.Msg, "trail": v.Trail}
		rb, _ := json.MarshalIndent(rp, "", " ")
		h := sha256.Sum256(rb)
		rpath := filepath.Join(*vdir, "replays", fmt.Sprintf("%s-%x.json", *prop, h[:6]))
		os.WriteFile(rpath, rb, 0644)
		violLines = append(violLines, fmt.Sprintf("VIOLATION property=%s replay=%s", *prop, rpath))
		fmt.Printf("  violated: %s at %s in %s with%s (native: %s %s)\n", v.ID, v.Pos, o.cfg.Harness, drawStr(v.Draws), r.Outcome, firstLine(r.Msg))
	}

	// sites none of whose counterexamples reproduced
	var missKeys []string
	for k := range siteMiss {
		if !siteDone[k] {
			missKeys = append(missKeys, k)
		}
	}
	sort.Strings(missKeys)
	for _, k := range missKeys {
		inconcl = append(inconcl, siteMiss[k])
	}

	// ---- native contract sweeps for stubs (not the deciding step)
	var sweepNotes []string
	for _, sw := range cfg.Sweeps {
		if sw.Tier != "" && sw.Tier != *tier {
			continue
		}
		args := []string{"run"}
		if overlayJSON != "" {
			args = append(args, "-overlay", overlayJSON)
		}
		args = append(args, sw.Pkg)
		args = append(args, sw.Args...)
		cmd := exec.Command("go", args...)
		cmd.Dir = hdir
		cmd.Env = goEnv()
		out, err := cmd.CombinedOutput()
		txt := strings.TrimSpace(string(out))
		sweepNotes = append(sweepNotes, sw.Pkg+" "+strings.Join(sw.Args, " ")+": "+firstLine(lastLineOf(txt)))
		if err != nil {
			if strings.Contains(txt, "roundtrip=fail") {
				violations++
				rp := map[string]interface{}{"property": *prop, "sweep": sw.Pkg, "output": txt}
				rb, _ := json.MarshalIndent(rp, "", " ")
				rpath := filepath.Join(*vdir, "replays", fmt.Sprintf("%s-sweep.json", *prop))
				os.WriteFile(rpath, rb, 0644)
				violLines = append(violLines, fmt.Sprintf("VIOLATION property=%s replay=%s", *prop, rpath))
			} else {
				inconcl = append(inconcl, "stub contract sweep failed: "+firstLine(txt))
			}
		}
	}

	// ---- second-solver cross-check of the recorded transcripts (thorough)
	xcheck := map[string]interface{}{}
	if *tier == "thorough" && os.Getenv("VERIF_NO_XCHECK") == "" {
		files, _ := filepath.Glob(filepath.Join(work, fmt.Sprintf("tr.%d.*.smt2", os.Getpid())))
		agree, disagree, unk := crossCheck(files)
		xcheck["second_solver"] = "z3-new (z3 5.1.0)"
		xcheck["answers_compared"] = agree + disagree
		xcheck["disagreements"] = disagree
		xcheck["second_solver_unknown"] = unk
		if disagree > 0 {
			inconcl = append(inconcl, fmt.Sprintf("second solver disagrees on %d queries", disagree))
		}
		for _, f := range files {
			os.Remove(f)
		}
	}

	// ---- evidence
	states, transitions, queries, sat, unsat, unknown := 0, 0, 0, 0, 0, 0
	solverS := 0.0
	fnSteps := map[string]int{}
	covers := map[string]int{}
	asserts := map[string]int{}
	stubs := map[string]int{}
	var harnessList []interface{}
	obligations := 0
	for _, o := range outs {
		states += len(o.res.Paths)
		transitions += o.res.Decisions
		queries += o.res.Stats.Queries
		sat += o.res.Stats.Sat
		unsat += o.res.Stats.Unsat
		unknown += o.res.Stats.Unknown
		solverS += o.res.Stats.Time.Seconds()
		for k, v := range o.res.FuncSteps {
			if strings.Contains(k, viseMod) {
				fnSteps[strings.ReplaceAll(k, viseMod+"/", "")] += v
			}
		}
		for k, v := range o.res.Covers {
			covers[k] += v
		}
		for k, v := range o.res.Asserts {
			asserts[k] += v
			obligations += v
		}
		for k, v := range o.res.Stubs {
			stubs[k] += v
		}
		ends := map[string]int{}
		for _, p := range o.res.Paths {
			ends[[...]string{"completed", "infeasible", "ended-at-violation", "inconclusive", "crash"}[p.End]]++
		}
		harnessList = append(harnessList, map[string]interface{}{"harness": o.cfg.Harness, "params": o.cfg.Params, "map_order": o.mo,
			"paths": len(o.res.Paths), "path_ends": ends, "queries": o.res.Stats.Queries, "wall_s": round2(o.res.Wall.Seconds()), "note": o.cfg.Note})
	}
	if transitions == 0 {
		transitions = states
	}
	if len(samples) == 0 {
		samples = append(samples, "no completed path")
	}
	result := "pass"
	switch {
	case violations > 0:
		result = "violation"
	case len(inconcl) > 0:
		result = "inconclusive"
	}
	var stubList []string
	for k := range stubs {
		if !strings.Contains(k, "vharness/vrt") {
			stubList = append(stubList, k)
		}
	}
	sort.Strings(stubList)
	ev := Evidence{
		PropertyID: *prop, Tier: *tier, Seed: seed, Level: "model_checking",
		Coverage: map[string]interface{}{
			"states":                        states,
			"transitions":                   transitions,
			"traces_validated_against_impl": validated,
			"traces_not_reproducible_natively": nativeSkipped,
			"samples":                       samples,
			"obligations":                   obligations,
			"discharged":                    obligations - violations - len(knownLines),
			"obligation_sites":              asserts,
			"functions_encoded":             fnSteps,
			"harnesses":                     harnessList,
			"bounds":                        cfg.Bounds,
			"queries":                       map[string]int{"total": queries, "sat": sat, "unsat": unsat, "unknown": unknown},
			"solver_time_s":                 round2(solverS),
			"solver":                        "z3 4.8.12 via one `z3 -in` per worker, (check-sat-using qfbv)",
			"covers_reached":                covers,
			"stubs_used":                    stubList,
			"second_solver":                 xcheck,
			"stub_contract_sweeps":          sweepNotes,
			"encoding_regenerated_from":     *repo + " (go/packages + go/ssa on every run, load " + fmt.Sprintf("%.1fs", P.LoadTime.Seconds()) + ")",
			"explanation":                   "states = explored paths (decision prefixes) of the symbolic execution of the real SSA; transitions = symbolic branch decisions; every path's solver model is re-run natively and its observations compared",
		},
		Assumptions: cfg.Assumptions,
		WallS:       round2(time.Since(start).Seconds()),
		Violations:  violations,
		Result:      result,
		KnownFound:  knownLines,
		Inconcl:     inconcl,
	}
	if !*noEvidence {
		os.MkdirAll(filepath.Join(*vdir, "evidence"), 0755)
		eb, _ := json.MarshalIndent(ev, "", " ")
		os.WriteFile(filepath.Join(*vdir, "evidence", *prop+".json"), eb, 0644)
	}
	{
		// one line per finding (input class), with the number of obligations it explains
		seen := map[string]int{}
		var order []string
		first := map[string]string{}
		for _, l := range knownLines {
			key := l
			if i := strings.Index(l, " ["); i > 0 {
				key = l[:i]
			}
			if seen[key] == 0 {
				order = append(order, key)
				first[key] = l
			}
			seen[key]++
		}
		for _, k := range order {
			fmt.Printf("%s (%d violated obligation sites in this class)\n", first[k], seen[k])
		}
	}
	fmt.Printf("%s %s: %d paths, %d queries (%d unsat), %d witnesses validated natively, %d obligations checked, %.1fs\n",
		*prop, *tier, states, queries, unsat, validated, obligations, time.Since(start).Seconds())
	if violations > 0 {
		for _, l := range violLines {
			fmt.Println(l)
		}
		os.Exit(1)
	}
	if len(inconcl) > 0 {
		seen := map[string]bool{}
		n := 0
		for _, m := range inconcl {
			if seen[m] {
				continue
			}
			seen[m] = true
			if n < 12 {
				fmt.Printf("INCONCLUSIVE property=%s %s\n", *prop, m)
			}
			n++
		}
		os.Exit(2)
	}
	fmt.Printf("PASS property=%s\n", *prop)
}

func lastLineOf(s string) string {
	if i := strings.LastIndexByte(s, '\n'); i >= 0 {
		return s[i+1:]
	}
	return s
}

func round2(f float64) float64 { return float64(int(f*100+0.5)) / 100 }

func sortedKeys(m map[string]string) []string {
	var ks []string
	for k := range m {
		ks = append(ks, k)
	}
	sort.Strings(ks)
	return ks
}

func isVisePkgDir(virt, repo string) bool { return strings.HasPrefix(virt, repo+"/") }

func drawVal(ds []DrawRec, label string) uint64 {
	for _, d := range ds {
		if d.Label == label {
			return d.V
		}
	}
	return 0
}

func nativeDraws(ds []DrawRec) []DrawRec {
	var out []DrawRec
	for _, d := range ds {
		if d.Kind == "fmt" {
			continue // internal to the fmt stub, not a harness draw
		}
		out = append(out, d)
	}
	return out
}

func obsEqual(a, b []ObsEval) bool {
	if len(a) != len(b) {
		return false
	}
	for i := range a {
		if a[i].Name != b[i].Name {
			return false
		}
		if a[i].Val == b[i].Val {
			continue
		}
		if strings.HasPrefix(a[i].Val, "<poison") {
			continue
		}
		return false
	}
	return true
}

// crossCheck re-runs solver transcripts through a second solver and compares
// the sat/unsat answer sequence.
func crossCheck(files []string) (agree, disagree, unknown int) {
	others := make([][]string, len(files))
	sem := make(chan struct{}, runtime.NumCPU())
	var wg sync.WaitGroup
	for i, f := range files {
		wg.Add(1)
		go func(i int, f string) {
			defer wg.Done()
			sem <- struct{}{}
			others[i] = answersOf("z3-new", f)
			<-sem
		}(i, f)
	}
	wg.Wait()
	for k, f := range files {
		orig := recordedAnswers(f)
		other := others[k]
		n := len(orig)
		if len(other) < n {
			n = len(other)
			unknown += len(orig) - len(other)
		}
		bad := -1
		for i := 0; i < n; i++ {
			switch {
			case strings.HasPrefix(other[i], "error:"):
				// not comparable from here on (answers no longer line up)
				unknown += n - i
				fmt.Printf("  cross-check: second solver rejected a command of %s: %s\n", filepath.Base(f), other[i])
				i = n
			case other[i] == "unknown" || orig[i] == "unknown":
				unknown++
			case other[i] == orig[i]:
				agree++
			default:
				disagree++
				if bad < 0 {
					bad = i
				}
			}
		}
		if bad >= 0 {
			keep := filepath.Join(filepath.Dir(f), fmt.Sprintf("disagree.%s", filepath.Base(f)))
			if b, err := os.ReadFile(f); err == nil {
				os.WriteFile(keep, b, 0o644)
			}
			fmt.Printf("  cross-check: answer %d of %s differs (recorded %s, second solver %s); transcript kept as %s\n", bad, filepath.Base(f), orig[bad], other[bad], keep)
		}
	}
	return
}

func recordedAnswers(file string) []string {
	b, _ := os.ReadFile(file)
	var ans []string
	for _, l := range strings.Split(string(b), "\n") {
		if strings.HasPrefix(l, "; => ") {
			// "sat (fallback)": decided by the fallback chain, same answer space
			ans = append(ans, strings.TrimSuffix(strings.TrimPrefix(l, "; => "), " (fallback)"))
		}
	}
	return ans
}

func answersOf(bin, file string) []string {
	// a soft limit per query (answers "unknown", which compares as unknown):
	// the transcripts of the integer-mode primary hold queries that a
	// bit-blasting solver does not finish, which is why that primary is used
	cmd := exec.Command(bin, "-t:3000", file)
	out, _ := cmd.Output()
	var ans []string
	for _, l := range strings.Split(string(out), "\n") {
		l = strings.TrimSpace(l)
		switch {
		case l == "sat", l == "unsat", l == "unknown":
			ans = append(ans, l)
		case strings.HasPrefix(l, "(error"):
			// a command the second solver did not accept: whatever it
			// answers next is not an answer to the recorded query
			ans = append(ans, "error:"+l)
		}
	}
	return ans
}

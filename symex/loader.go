package main

// Loading = regenerating the encoding: go/packages reads the harness module
// (which replaces go-vise by /repo's working tree) and go/ssa builds the SSA
// that is executed. Nothing is cached between runs.

import (
	"fmt"
	"go/token"
	"go/types"
	"os"
	"path/filepath"
	"strings"
	"sync"
	"time"

	"golang.org/x/tools/go/packages"
	"golang.org/x/tools/go/ssa"
	"golang.org/x/tools/go/ssa/ssautil"
)

const viseMod = "git.defalsify.org/vise.git"
const harnessMod = "vharness"

type Program struct {
	prog     *ssa.Program
	fset     *token.FileSet
	pkgs     map[string]*ssa.Package
	LoadTime time.Duration
	mu       sync.Mutex
	rtErr    types.Type
	errStr   types.Type
	wrapErr  types.Type
	fnInfos  sync.Map
	repoDir  string
	hasInit  map[*types.Var]bool
}

func (p *Program) pos(pos token.Pos) string {
	if !pos.IsValid() {
		return "?"
	}
	ps := p.fset.Position(pos)
	f := ps.Filename
	if rel, err := filepath.Rel(p.repoDir, f); err == nil && !strings.HasPrefix(rel, "..") {
		f = rel
	} else if i := strings.Index(f, "/verif/"); i >= 0 {
		f = f[i+1:]
	} else {
		f = filepath.Base(f)
	}
	return fmt.Sprintf("%s:%d", f, ps.Line)
}

// LoadProgram loads the harness packages (patterns relative to harnessDir)
// with optional overlay files (virtual path -> real file).
func LoadProgram(harnessDir, repoDir string, patterns []string, overlay map[string]string) (*Program, error) {
	start := time.Now()
	ov := make(map[string][]byte)
	for virt, real := range overlay {
		b, err := os.ReadFile(real)
		if err != nil {
			return nil, err
		}
		ov[virt] = b
	}
	cfg := &packages.Config{
		Mode:    packages.LoadAllSyntax,
		Dir:     harnessDir,
		Overlay: ov,
		Env:     append(os.Environ(), "GOFLAGS=-mod=mod", "GOPROXY=off", "GOSUMDB=off", "GOTOOLCHAIN=local"),
	}
	initial, err := packages.Load(cfg, patterns...)
	if err != nil {
		return nil, err
	}
	var errs []string
	packages.Visit(initial, nil, func(p *packages.Package) {
		for _, e := range p.Errors {
			errs = append(errs, e.Error())
		}
	})
	if len(errs) > 0 {
		if len(errs) > 10 {
			errs = errs[:10]
		}
		return nil, fmt.Errorf("package load errors (harness no longer compiles against /repo?):\n%s", strings.Join(errs, "\n"))
	}
	prog, _ := ssautil.AllPackages(initial, ssa.InstantiateGenerics)
	prog.Build()
	P := &Program{prog: prog, fset: prog.Fset, pkgs: make(map[string]*ssa.Package), repoDir: repoDir, hasInit: make(map[*types.Var]bool)}
	packages.Visit(initial, nil, func(p *packages.Package) {
		if p.TypesInfo == nil {
			return
		}
		for _, in := range p.TypesInfo.InitOrder {
			for _, v := range in.Lhs {
				P.hasInit[v] = true
			}
		}
	})
	for _, pk := range prog.AllPackages() {
		P.pkgs[pk.Pkg.Path()] = pk
	}
	P.LoadTime = time.Since(start)
	return P, nil
}

func (p *Program) lookupFunc(pkgPath, name string) *ssa.Function {
	pk := p.pkgs[pkgPath]
	if pk == nil {
		return nil
	}
	return pk.Func(name)
}

func (p *Program) namedType(pkgPath, name string) types.Type {
	pk := p.pkgs[pkgPath]
	if pk == nil {
		return nil
	}
	m := pk.Members[name]
	if t, ok := m.(*ssa.Type); ok {
		return t.Type()
	}
	return nil
}

func (p *Program) runtimeErrorType() types.Type {
	p.mu.Lock()
	defer p.mu.Unlock()
	if p.rtErr == nil {
		// runtime.Error values are modelled as *errors.errorString-like hosts;
		// use the named type runtime.plainError-ish stand-in: errors.errorString
		p.rtErr = types.NewPointer(p.namedType("errors", "errorString"))
	}
	return p.rtErr
}

func (p *Program) errorStringPtr() types.Type {
	p.mu.Lock()
	defer p.mu.Unlock()
	if p.errStr == nil {
		p.errStr = types.NewPointer(p.namedType("errors", "errorString"))
	}
	return p.errStr
}

func (p *Program) wrapErrorPtr() types.Type {
	p.mu.Lock()
	defer p.mu.Unlock()
	if p.wrapErr == nil {
		p.wrapErr = types.NewPointer(p.namedType("fmt", "wrapError"))
	}
	return p.wrapErr
}

func isVisePkg(path string) bool {
	return path == viseMod || strings.HasPrefix(path, viseMod+"/")
}

func isHarnessPkg(path string) bool {
	return path == harnessMod || strings.HasPrefix(path, harnessMod+"/")
}

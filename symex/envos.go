package main

// A POSIX-like file system model for the code that uses package os
// (db/fs, persist over it): a map from cleaned path to file content,
// directories, open files. Process-crash semantics for C12: completed
// operations survive, a crash may fall before any operation or inside a
// write (a prefix of the data is written); no fsync modelling.

import (
	"strings"
	"fmt"
	"go/types"
	"sort"

	"golang.org/x/tools/go/ssa"
)

type fsFile struct {
	path   Str
	data   []Value
	exists bool
}

// statInfo: what os.Stat reports (a snapshot, as the real one).
type statInfo struct {
	name    Str
	size    int
	symSize *Term // set when the byte length is not modelled (any value)
	dir     bool
}

type openFile struct {
	f      *fsFile
	pos    int // file offset of the next write (O_APPEND: the end, at every write)
	over   bool // opened for writing over existing content (no O_TRUNC, no O_APPEND)
	ex     *Exec
	closed bool
	wr     bool
	rd     bool
	app    bool
}

type crashSignal struct{}

type FS struct {
	files   []*fsFile
	dirs    []Str
	tmpN    int
	crashOn bool
	windows int // crash windows opened so far
	crashAt *Term // step number at which the process dies (0 = never)
	partial *Term // bytes written by the interrupted write
	step    int
	log     []string
	renames int // os.Rename calls so far (each is one rename syscall natively)
	crashedAt int
	crashPart int
	// file footprint (C19): the session on whose behalf file-system calls are
	// being made, and who last created, truncated, wrote, renamed or removed
	// each path. A path written on behalf of two sessions is state they share.
	owner   string
	touched map[string]string
	// write fault window (C12): the first write inside it gets only part of
	// its data out and returns an error (a full disk, a quota, a size limit)
	wfault     bool
	wfaultDone bool
}

// fsTouch records a mutating file-system call on path under the current owner.
func (ex *Exec) fsTouch(path Str) {
	fs := ex.fs()
	if fs.owner == "" {
		return
	}
	if fs.touched == nil {
		fs.touched = map[string]string{}
	}
	key := path.Describe()
	if prev, ok := fs.touched[key]; ok && prev != fs.owner {
		ex.oblige(ex.ts.False(), "footprint: file "+key+" is written on behalf of two sessions ("+prev+", "+fs.owner+")")
	}
	fs.touched[key] = fs.owner
}

func (ex *Exec) fs() *FS {
	if f, ok := ex.hostState["fs"].(*FS); ok {
		return f
	}
	f := &FS{}
	ex.hostState["fs"] = f
	return f
}

func (ex *Exec) globalValue(pkg, name string) Value {
	p := ex.P.pkgs[pkg]
	if p == nil {
		ex.unsupported("package %s not loaded", pkg)
	}
	g, ok := p.Members[name].(*ssa.Global)
	if !ok {
		ex.unsupported("global %s.%s not found", pkg, name)
	}
	return *ex.globalCell(g)
}

func (ex *Exec) pathError(op string, path Str, errGlobal string) Value {
	inner := ex.globalValue("io/fs", errGlobal)
	pt := ex.P.namedType("io/fs", "PathError")
	cell := new(Value)
	*cell = Struct{ex.strLit(op), path, inner}
	return Iface{T: types.NewPointer(pt), V: Ptr{P: cell}}
}

// strSame decides path equality on this path (forks when symbolic).
func (ex *Exec) strSame(a, b Str) bool {
	t, ok := ex.strEq(a, b).(*Term)
	if !ok {
		ex.unsupported("file path comparison")
	}
	return ex.branch(t)
}

func (ex *Exec) findFile(path Str) *fsFile {
	for _, f := range ex.fs().files {
		if f.exists && ex.strSame(f.path, path) {
			return f
		}
	}
	return nil
}

// dirOf splits a (cleaned) path at its last slash.
func (ex *Exec) dirOf(path Str) (dir Str, base Str) {
	if path.HasOpaque() {
		ex.unsupported("file path with opaque content")
	}
	bs := flatBytes(path)
	last := -1
	for i, b := range bs {
		if ex.isByte(b, '/') {
			last = i
		}
	}
	if last < 0 {
		return ex.strLit("."), path
	}
	if last == 0 {
		return ex.strLit("/"), Str{Segs: normSegs([]Seg{{B: bs[1:]}})}
	}
	return Str{Segs: normSegs([]Seg{{B: bs[:last]}})}, Str{Segs: normSegs([]Seg{{B: bs[last+1:]}})}
}

func (ex *Exec) dirExists(dir Str) bool {
	for _, d := range ex.fs().dirs {
		if ex.strSame(d, dir) {
			return true
		}
	}
	return false
}

func (ex *Exec) isDir(path Str) bool { return ex.dirExists(path) }

// crashPoint: inside a crash window every file-system operation is a step;
// the process dies before the step whose number equals the crash variable.
func (ex *Exec) crashPoint(what string) {
	fs := ex.fs()
	if !fs.crashOn {
		return
	}
	fs.step++
	fs.log = append(fs.log, what)
	if ex.branch(ex.ts.Eq(fs.crashAt, ex.ts.Const(64, uint64(fs.step)))) {
		fs.crashedAt = fs.step
		panic(crashSignal{})
	}
}

func (ex *Exec) newFileHandle(of *openFile) Value {
	cell := new(Value)
	*cell = &Host{Kind: "os.File", Data: of}
	return Ptr{P: cell}
}

func (ex *Exec) fileOf(v Value) *openFile {
	p, ok := v.(Ptr)
	if !ok || p.P == nil {
		ex.mustHold(ex.ts.False(), "nil pointer dereference (nil *os.File)")
		ex.end(endCrash, "nil *os.File")
	}
	h, ok := (*p.P).(*Host)
	if !ok || h.Kind != "os.File" {
		ex.unsupported("not a modelled *os.File")
	}
	of, ok := h.Data.(*openFile)
	if !ok {
		return nil // stdio
	}
	return of
}

const (
	oWRONLY = 0x1
	oRDWR   = 0x2
	oAPPEND = 0x400
	oCREATE = 0x40
	oEXCL   = 0x80
	oTRUNC  = 0x200
)

// hasNUL: the kernel refuses a path with an embedded NUL byte.
func (ex *Exec) hasNUL(name Str) bool {
	for _, b := range flatBytes(name) {
		if ex.isByte(b, 0) {
			return true
		}
	}
	return false
}

func (ex *Exec) openFileModel(name Str, flag int) Value {
	fs := ex.fs()
	if name.HasOpaque() {
		ex.unsupported("file path with opaque content")
	}
	if ex.hasNUL(name) {
		return Tuple{Ptr{}, ex.pathError("open", name, "ErrInvalid")}
	}
	if ex.isDir(name) {
		if flag&(oWRONLY|oRDWR) != 0 {
			return Tuple{Ptr{}, ex.pathError("open", name, "ErrInvalid")}
		}
		of := &openFile{rd: true}
		return Tuple{ex.newFileHandle(of), Iface{}}
	}
	f := ex.findFile(name)
	if f == nil {
		if flag&oCREATE == 0 {
			return Tuple{Ptr{}, ex.pathError("open", name, "ErrNotExist")}
		}
		dir, _ := ex.dirOf(name)
		if !ex.dirExists(dir) {
			return Tuple{Ptr{}, ex.pathError("open", name, "ErrNotExist")}
		}
		ex.crashPoint("create " + name.Describe())
		ex.fsTouch(name)
		f = &fsFile{path: name, exists: true}
		fs.files = append(fs.files, f)
	} else {
		if flag&oCREATE != 0 && flag&oEXCL != 0 {
			return Tuple{Ptr{}, ex.pathError("open", name, "ErrExist")}
		}
		if flag&oTRUNC != 0 {
			ex.crashPoint("truncate " + name.Describe())
			ex.fsTouch(name)
			f.data = nil
		}
	}
	of := &openFile{f: f, wr: flag&(oWRONLY|oRDWR) != 0, rd: flag&oWRONLY == 0, app: flag&oAPPEND != 0}
	of.over = of.wr && !of.app && len(f.data) > 0
	of.ex = ex
	return Tuple{ex.newFileHandle(of), Iface{}}
}

func (ex *Exec) writeModel(of *openFile, data []Value) Value {
	fs := ex.fs()
	if of == nil {
		return Tuple{ex.ts.Const(64, uint64(len(data))), Iface{}}
	}
	if of.closed || !of.wr {
		return Tuple{ex.ts.Const(64, 0), ex.pathError("write", of.f.path, "ErrClosed")}
	}
	ex.fsTouch(of.f.path)
	if fs.wfault && !fs.wfaultDone && len(data) > 0 {
		fs.wfaultDone = true
		n := len(data) / 2
		of.put(data[:n])
		return Tuple{ex.ts.Const(64, uint64(n)), ex.pathError("write", of.f.path, "ErrInvalid")}
	}
	if fs.crashOn && len(data) > 0 {
		fs.step++
		fs.log = append(fs.log, "write "+of.f.path.Describe())
		if ex.branch(ex.ts.Eq(fs.crashAt, ex.ts.Const(64, uint64(fs.step)))) {
			// the process dies inside the write: a prefix has been written
			// how much of the interrupted write got out: 0..8 bytes, half of
			// it, or all but the last byte (the stated bound on partial writes)
			ts := ex.ts
			last := uint64(len(data) - 1)
			ex.assume(ts.Ule(fs.partial, ts.Const(64, last)))
			ex.assume(ts.Or(ts.Ule(fs.partial, ts.Const(64, 8)),
				ts.Or(ts.Eq(fs.partial, ts.Const(64, uint64(len(data)/2))), ts.Eq(fs.partial, ts.Const(64, last)))))
			n := int(ex.concretize(fs.partial, 0, last))
			fs.crashedAt, fs.crashPart = fs.step, n
			of.put(data[:n])
			panic(crashSignal{})
		}
	}
	of.put(data)
	return Tuple{ex.ts.Const(64, uint64(len(data))), Iface{}}
}

// put writes at the file offset: over what is there, extending the file at
// its end (a file opened without O_TRUNC keeps the bytes not written over).
func (of *openFile) put(data []Value) {
	if of.app {
		of.pos = len(of.f.data)
	}
	if of.over && len(data) > 0 {
		// writing over content that was there, without truncation: a record of
		// the model has no byte length (it is a structural snapshot), so
		// whether what is written is shorter than what was there is not known
		// here. Both are explored: if shorter, a piece of the old content
		// stays behind at the end (a mixed file); the native replay decides
		// whether the real byte lengths make it so.
		of.over = false
		ex := of.ex
		// Before the first crash window (the harness setting up its history)
		// this is not explored: the write is taken to cover what was there.
		if ex.fs().windows > 0 {
			shorter := ex.draw("fs:written-is-shorter-than-what-was-there", "fmt", 8, 0, 1)
			if ex.branch(ex.ts.Eq(shorter, ex.ts.Const(8, 1))) {
				tail := of.f.data[len(of.f.data)-1]
				defer func() { of.f.data = append(of.f.data, tail) }()
			}
		}
	}
	for _, v := range data {
		if of.pos < len(of.f.data) {
			of.f.data[of.pos] = copyVal(v)
		} else {
			of.f.data = append(of.f.data, copyVal(v))
		}
		of.pos++
	}
}

func (ex *Exec) sliceData(v Value) []Value {
	sl, ok := v.(Slice)
	if !ok {
		ex.bad("file data:", v)
	}
	if sl.Rope != nil {
		ex.unsupported("file content with opaque chunks")
	}
	return sl.A
}

func initOsStubs() {
	reg := func(name string, f intrinsicFn) { namedIntrinsics[name] = f }
	reg("os.MkdirAll", func(ex *Exec, fn *ssa.Function, args []Value, caller *Frame) Value {
		p := strArg(ex, args[0], "os.MkdirAll")
		if !ex.dirExists(p) {
			ex.crashPoint("mkdir " + p.Describe())
			fs := ex.fs()
			fs.dirs = append(fs.dirs, p)
		}
		return Iface{}
	})
	reg("os.Open", func(ex *Exec, fn *ssa.Function, args []Value, caller *Frame) Value {
		return ex.openFileModel(strArg(ex, args[0], "os.Open"), 0)
	})
	reg("os.Create", func(ex *Exec, fn *ssa.Function, args []Value, caller *Frame) Value {
		return ex.openFileModel(strArg(ex, args[0], "os.Create"), oRDWR|oCREATE|oTRUNC)
	})
	reg("os.OpenFile", func(ex *Exec, fn *ssa.Function, args []Value, caller *Frame) Value {
		return ex.openFileModel(strArg(ex, args[0], "os.OpenFile"), ex.concreteInt(args[1], "open flag"))
	})
	reg("os.CreateTemp", func(ex *Exec, fn *ssa.Function, args []Value, caller *Frame) Value {
		dir := strArg(ex, args[0], "os.CreateTemp dir")
		pat := concArg(ex, args[1], "os.CreateTemp pattern")
		fs := ex.fs()
		if d, ok := dir.Concrete(); ok && d == "" {
			dir = ex.strLit("/tmp")
			if !ex.dirExists(dir) {
				fs.dirs = append(fs.dirs, dir)
			}
		}
		if !ex.dirExists(dir) {
			return Tuple{Ptr{}, ex.pathError("open", dir, "ErrNotExist")}
		}
		fs.tmpN++
		name := fmt.Sprintf("%d", 100000+fs.tmpN)
		full := pat + name
		for i := len(pat) - 1; i >= 0; i-- {
			if pat[i] == '*' {
				full = pat[:i] + name + pat[i+1:]
				break
			}
		}
		return ex.openFileModel(concatStr(concatStr(dir, ex.strLit("/")), ex.strLit(full)), oRDWR|oCREATE|oEXCL)
	})
	reg("(*os.File).Write", func(ex *Exec, fn *ssa.Function, args []Value, caller *Frame) Value {
		return ex.writeModel(ex.fileOf(args[0]), ex.sliceData(args[1]))
	})
	reg("(*os.File).WriteString", func(ex *Exec, fn *ssa.Function, args []Value, caller *Frame) Value {
		return ex.writeModel(ex.fileOf(args[0]), ex.sliceData(ex.strToBytes(strArg(ex, args[1], "File.WriteString"))))
	})
	reg("(*os.File).Close", func(ex *Exec, fn *ssa.Function, args []Value, caller *Frame) Value {
		of := ex.fileOf(args[0])
		if of == nil {
			return Iface{}
		}
		if of.closed {
			return ex.pathError("close", Str{}, "ErrClosed")
		}
		if of.wr {
			ex.crashPoint("close")
		}
		of.closed = true
		return Iface{}
	})
	reg("(*os.File).Sync", func(ex *Exec, fn *ssa.Function, args []Value, caller *Frame) Value {
		ex.crashPoint("sync")
		return Iface{}
	})
	reg("(*os.File).Chmod", func(ex *Exec, fn *ssa.Function, args []Value, caller *Frame) Value { return Iface{} })
	reg("(*os.File).Name", func(ex *Exec, fn *ssa.Function, args []Value, caller *Frame) Value {
		of := ex.fileOf(args[0])
		if of == nil || of.f == nil {
			return Str{}
		}
		return of.f.path
	})
	readAll := func(ex *Exec, fn *ssa.Function, args []Value, caller *Frame) Value {
		var fv Value = args[0]
		if iv, ok := fv.(Iface); ok {
			fv = iv.V
		}
		of := ex.fileOf(fv)
		if of == nil || of.f == nil || of.closed {
			return Tuple{Slice{Nil: true}, ex.pathError("read", Str{}, "ErrClosed")}
		}
		out := make([]Value, len(of.f.data))
		for i, v := range of.f.data {
			out[i] = copyVal(v)
		}
		return Tuple{Slice{A: out}, Iface{}}
	}
	reg("io.ReadAll", readAll)
	reg("io/ioutil.ReadAll", readAll)
	stat := func(ex *Exec, fn *ssa.Function, args []Value, caller *Frame) Value {
		name := strArg(ex, args[0], "os.Stat")
		if name.HasOpaque() {
			ex.unsupported("file path with opaque content")
		}
		if ex.hasNUL(name) {
			return Tuple{Iface{}, ex.pathError("stat", name, "ErrInvalid")}
		}
		it := ex.P.namedType("io/fs", "FileInfo")
		if ex.isDir(name) {
			return Tuple{Iface{T: it, V: &Host{Kind: "os.FileInfo", Data: &statInfo{name: name, dir: true}}}, Iface{}}
		}
		f := ex.findFile(name)
		if f == nil {
			return Tuple{Iface{}, ex.pathError("stat", name, "ErrNotExist")}
		}
		_, base := ex.dirOf(name)
		si := &statInfo{name: base, size: len(f.data)}
		for _, c := range f.data {
			if _, blob := c.(BlobCell); blob && ex.fs().windows > 0 {
				// a marshalled record: the model has no byte length for it
				// (any value from the first crash window on; before that the
				// number of cells, so that set-up histories do not fork)
				si.symSize = ex.draw("fs:record-size", "fmt", 64, 1, 1<<20)
				break
			}
		}
		return Tuple{Iface{T: it, V: &Host{Kind: "os.FileInfo", Data: si}}, Iface{}}
	}
	reg("os.Stat", stat)
	reg("os.Lstat", stat)
	reg("path/filepath.Glob", func(ex *Exec, fn *ssa.Function, args []Value, caller *Frame) Value {
		// patterns of the form <literal prefix>* (one star, at the end, no
		// other metacharacter): the files whose path begins with the prefix
		// and has no further separator
		pat := concArg(ex, args[0], "filepath.Glob pattern")
		if !strings.HasSuffix(pat, "*") || strings.ContainsAny(pat[:len(pat)-1], "*?[\\") {
			ex.unsupported("filepath.Glob pattern other than <prefix>*")
		}
		prefix := pat[:len(pat)-1]
		var out []Value
		for _, f := range ex.fs().files {
			if !f.exists {
				continue
			}
			p, ok := f.path.Concrete()
			if !ok {
				ex.unsupported("filepath.Glob over symbolic file names")
			}
			if strings.HasPrefix(p, prefix) && !strings.Contains(p[len(prefix):], "/") {
				out = append(out, f.path)
			}
		}
		return Tuple{Slice{A: out, Nil: len(out) == 0}, Iface{}}
	})
	reg("os.ReadFile", func(ex *Exec, fn *ssa.Function, args []Value, caller *Frame) Value {
		name := strArg(ex, args[0], "os.ReadFile")
		if ex.hasNUL(name) {
			return Tuple{Slice{Nil: true}, ex.pathError("open", name, "ErrInvalid")}
		}
		f := ex.findFile(name)
		if f == nil {
			return Tuple{Slice{Nil: true}, ex.pathError("open", name, "ErrNotExist")}
		}
		out := make([]Value, len(f.data))
		for i, v := range f.data {
			out[i] = copyVal(v)
		}
		return Tuple{Slice{A: out}, Iface{}}
	})
	reg("os.Rename", func(ex *Exec, fn *ssa.Function, args []Value, caller *Frame) Value {
		from, to := strArg(ex, args[0], "os.Rename"), strArg(ex, args[1], "os.Rename")
		ex.fs().renames++
		if ex.hasNUL(from) || ex.hasNUL(to) {
			return ex.pathError("rename", to, "ErrInvalid")
		}
		f := ex.findFile(from)
		if f == nil {
			return ex.pathError("rename", from, "ErrNotExist")
		}
		if ex.isDir(to) {
			// a file cannot replace a directory
			return ex.pathError("rename", to, "ErrExist")
		}
		dir, _ := ex.dirOf(to)
		if !ex.dirExists(dir) {
			return ex.pathError("rename", to, "ErrNotExist")
		}
		// rename(2) does not cross file systems: when source and destination
		// lie in different directories they may be on different devices (the
		// system temporary directory and a data volume, say), and then the
		// call fails with EXDEV. Explored both ways from the first crash
		// window on; within one directory it cannot happen.
		if fdir, _ := ex.dirOf(from); ex.fs().windows > 0 && !ex.strSame(fdir, dir) {
			x := ex.draw("fs:rename-crosses-devices", "fmt", 8, 0, 1)
			if ex.branch(ex.ts.Eq(x, ex.ts.Const(8, 1))) {
				lt := ex.P.namedType("os", "LinkError")
				et := ex.P.namedType("syscall", "Errno")
				cell := new(Value)
				*cell = Struct{ex.strLit("rename"), from, to, Iface{T: et, V: ex.ts.Const(64, 18)}}
				return Iface{T: types.NewPointer(lt), V: Ptr{P: cell}}
			}
		}
		ex.crashPoint("rename " + from.Describe() + " -> " + to.Describe())
		ex.fsTouch(from)
		ex.fsTouch(to)
		// atomic replace
		if old := ex.findFile(to); old != nil && old != f {
			old.exists = false
		}
		f.path = to
		return Iface{}
	})
	reg("os.Remove", func(ex *Exec, fn *ssa.Function, args []Value, caller *Frame) Value {
		name := strArg(ex, args[0], "os.Remove")
		if ex.hasNUL(name) {
			return ex.pathError("remove", name, "ErrInvalid")
		}
		f := ex.findFile(name)
		if f == nil {
			return ex.pathError("remove", name, "ErrNotExist")
		}
		ex.crashPoint("remove " + name.Describe())
		ex.fsTouch(name)
		f.exists = false
		return Iface{}
	})
	reg("os.ReadDir", func(ex *Exec, fn *ssa.Function, args []Value, caller *Frame) Value {
		dir := strArg(ex, args[0], "os.ReadDir")
		if !ex.dirExists(dir) {
			return Tuple{Slice{Nil: true}, ex.pathError("open", dir, "ErrNotExist")}
		}
		type ent struct {
			name Str
			conc string
			ok   bool
		}
		var ents []ent
		allConc := true
		for _, f := range ex.fs().files {
			if !f.exists {
				continue
			}
			d, base := ex.dirOf(f.path)
			if !ex.strSame(d, dir) {
				continue
			}
			c, ok := base.Concrete()
			if !ok {
				allConc = false
			}
			ents = append(ents, ent{base, c, ok})
		}
		if allConc {
			// directory order: sorted by file name
			sort.Slice(ents, func(i, j int) bool { return ents[i].conc < ents[j].conc })
		} else {
			// names with symbolic bytes: insertion sort, every comparison decided
			// on this path (forks where both orders are possible)
			for i := 1; i < len(ents); i++ {
				for j := i; j > 0 && ex.strLess(ents[j].name, ents[j-1].name); j-- {
					ents[j], ents[j-1] = ents[j-1], ents[j]
				}
			}
		}
		dt := ex.P.namedType("io/fs", "DirEntry")
		out := make([]Value, len(ents))
		for i, e := range ents {
			out[i] = Iface{T: dt, V: &Host{Kind: "os.DirEntry", Data: e.name}}
		}
		return Tuple{Slice{A: out}, Iface{}}
	})
}

// strLess decides a < b (bytewise) on this path.
func (ex *Exec) strLess(a, b Str) bool {
	if a.HasOpaque() || b.HasOpaque() {
		ex.unsupported("ordering of names with opaque content")
	}
	ab, bb := flatBytes(a), flatBytes(b)
	for i := 0; i < len(ab) && i < len(bb); i++ {
		if ex.branch(ex.ts.Eq(ab[i], bb[i])) {
			continue
		}
		return ex.branch(ex.ts.Ult(ab[i], bb[i]))
	}
	return len(ab) < len(bb)
}
